//go:build verif

// In-package verification shim. This file is NOT part of the repository: it
// is injected with `go build -overlay` by /verif/check and only exposes
// internals (digit recoders, lookup tables) read-only so that they can be
// enumerated exhaustively. Every property is decided on the public API.
package edwards25519

import "filippo.io/edwards25519/field"

func VerifSignedRadix16(s *Scalar) [64]int8 { return s.signedRadix16() }

func VerifNonAdjacentForm(s *Scalar, w uint) [256]int8 { return s.nonAdjacentForm(w) }

// VerifProjTable returns the 8 entries (YplusX, YminusX, Z, T2d) of the
// constant-time variable-base table of q.
func VerifProjTable(q *Point) (out [8][4]field.Element) {
	var t projLookupTable
	t.FromP3(q)
	for i, p := range t.points {
		out[i] = [4]field.Element{p.YplusX, p.YminusX, p.Z, p.T2d}
	}
	return
}

func VerifNafTable5(q *Point) (out [8][4]field.Element) {
	var t nafLookupTable5
	t.FromP3(q)
	for i, p := range t.points {
		out[i] = [4]field.Element{p.YplusX, p.YminusX, p.Z, p.T2d}
	}
	return
}

func VerifProjSelect(q *Point, x int8) [4]field.Element {
	var t projLookupTable
	t.FromP3(q)
	var d projCached
	t.SelectInto(&d, x)
	return [4]field.Element{d.YplusX, d.YminusX, d.Z, d.T2d}
}

func VerifBasepointTableEntry(i, j int) [3]field.Element {
	p := basepointTable()[i].points[j]
	return [3]field.Element{p.YplusX, p.YminusX, p.T2d}
}

func VerifBasepointSelect(i int, x int8) [3]field.Element {
	var d affineCached
	basepointTable()[i].SelectInto(&d, x)
	return [3]field.Element{d.YplusX, d.YminusX, d.T2d}
}

func VerifBasepointNafEntry(j int) [3]field.Element {
	p := basepointNafTable().points[j]
	return [3]field.Element{p.YplusX, p.YminusX, p.T2d}
}
