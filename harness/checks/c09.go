package checks

import (
	"bytes"
	"fmt"
	"math/big"
	"sync"

	"filippo.io/edwards25519/field"
	"verif/harness/alpha"
	"verif/harness/core"
	"verif/harness/limbmodel"
	"verif/harness/ref"
)

// C09 - field arithmetic is GF(2^255-19) for every reachable representation.

type feCase struct {
	Op string `json:"op"`
	A  elemIn `json:"a"`
	B  elemIn `json:"b"`
	Y  uint32 `json:"y,omitempty"`
}

var two255m21 = new(big.Int).Sub(ref.P, big.NewInt(2))
var e22523 = new(big.Int).Sub(new(big.Int).Lsh(big.NewInt(1), 252), big.NewInt(3))

// opBounds: model output bounds per operation (from the fixpoint run).
var (
	lmOnce   sync.Once
	lmBox    limbmodel.Bound
	lmOps    limbmodel.OpBounds
	lmModel  *limbmodel.Model
	lmRounds int
)

func limbModel() {
	lmOnce.Do(func() { lmBox, lmOps, lmModel, lmRounds = limbmodel.Fixpoint() })
}

// closure statistics: largest limb observed per op, and escapes from the model bound.
type closureStats struct {
	mu      sync.Mutex
	max     map[string]Limbs
	escapes map[string]int
	sample  map[string]string
}

var c09Closure = &closureStats{max: map[string]Limbs{}, escapes: map[string]int{}, sample: map[string]string{}}

func (cs *closureStats) observe(op string, out *field.Element, c any) {
	l := alpha.LimbsOf(out)
	limbModel()
	bound, ok := lmOps[op]
	cs.mu.Lock()
	m := cs.max[op]
	for i := range m {
		if l[i] > m[i] {
			m[i] = l[i]
		}
	}
	cs.max[op] = m
	if ok {
		bu := bound.Uint64()
		for i := range l {
			if l[i] > bu[i] {
				cs.escapes[op]++
				if _, have := cs.sample[op]; !have {
					cs.sample[op] = fmt.Sprintf("%+v -> %v > bound %v", c, l, bu)
				}
				break
			}
		}
	}
	cs.mu.Unlock()
}

func elemIs(e *field.Element, want *big.Int, what string) *core.Fail {
	got := e.Bytes()
	w := ref.LE32(ref.FRed(want))
	if !bytes.Equal(got, w[:]) {
		return core.Failf("%s: got %x want %x", what, got, w[:])
	}
	return nil
}

func evalFe(w *core.Worker, c feCase) *core.Fail {
	a, b := c.A.elem(), c.B.elem()
	a0, b0 := a, b
	av, bv := c.A.value(), c.B.value()
	var r field.Element
	var ret *field.Element
	var want *big.Int
	switch c.Op {
	case "Add":
		ret, want = r.Add(&a, &b), ref.FAdd(av, bv)
	case "Subtract":
		ret, want = r.Subtract(&a, &b), ref.FSub(av, bv)
	case "Multiply":
		ret, want = r.Multiply(&a, &b), ref.FMul(av, bv)
	case "Negate":
		ret, want = r.Negate(&a), ref.FNeg(av)
	case "Square":
		ret, want = r.Square(&a), ref.FSq(av)
	case "Invert":
		ret, want = r.Invert(&a), ref.FInv(av)
		var prod field.Element
		prod.Multiply(&r, &a)
		pw := big.NewInt(1)
		if av.Sign() == 0 {
			pw = big.NewInt(0)
		}
		if f := elemIs(&prod, pw, "x*Invert(x)"); f != nil {
			return f
		}
	case "Pow22523":
		ret, want = r.Pow22523(&a), ref.FPow(av, e22523)
	case "Absolute":
		ret = r.Absolute(&a)
		want = av
		if av.Bit(0) == 1 {
			want = ref.FNeg(av)
		}
	case "Mult32":
		ret, want = r.Mult32(&a, c.Y), ref.FMul(av, new(big.Int).SetUint64(uint64(c.Y)))
	case "Set":
		ret, want = r.Set(&a), av
	default:
		panic("bad op " + c.Op)
	}
	if ret != &r {
		return core.Failf("%s did not return the receiver", c.Op)
	}
	_, _ = a0, b0 // arguments staying untouched is C11's business
	c09Closure.observe(c.Op, &r, c)
	w.Distinct("nontrivial:field-results", r.Bytes())
	return elemIs(&r, want, c.Op)
}

var subC09Lattice = core.NewSub("C09/lattice", evalFe)
var subC09Forms = core.NewSub("C09/forms", evalFe)

// Mult32 chains: the only way to grow limbs.
type m32Chain struct {
	A  elemIn    `json:"a"`
	Ys [3]uint32 `json:"ys"`
	Op string    `json:"then"`
}

var subC09Chain = core.NewSub("C09/mult32-chain", func(w *core.Worker, c m32Chain) *core.Fail {
	e := c.A.elem()
	v := c.A.value()
	for _, y := range c.Ys {
		e.Mult32(&e, y)
		v = ref.FMul(v, new(big.Int).SetUint64(uint64(y)))
		c09Closure.observe("Mult32", &e, c)
		if f := elemIs(&e, v, "Mult32 chain"); f != nil {
			return f
		}
	}
	var r field.Element
	var want *big.Int
	switch c.Op {
	case "Square":
		r.Square(&e)
		want = ref.FSq(v)
	case "Negate":
		r.Negate(&e)
		want = ref.FNeg(v)
	case "AddSelf":
		r.Add(&e, &e)
		want = ref.FAdd(v, v)
	case "SubFromZero":
		var z field.Element
		r.Subtract(&z, &e)
		want = ref.FNeg(v)
	case "MulSelf":
		r.Multiply(&e, &e)
		want = ref.FSq(v)
	}
	w.Distinct("nontrivial:field-results", r.Bytes())
	return elemIs(&r, want, c.Op+" after Mult32 chain")
})

// ---- element register machine (real histories from public constructors) ----

type feState struct {
	R [3]field.Element
	M [3]*big.Int
}

var c09MaxSeen struct {
	sync.Mutex
	l Limbs
}

func feMachine() *core.Machine[feState] {
	var names []string
	for _, op := range []string{"Add", "Subtract", "Multiply"} {
		for r := 0; r < 3; r++ {
			for a := 0; a < 3; a++ {
				for b := 0; b < 3; b++ {
					names = append(names, fmt.Sprintf("%s %d %d %d", op, r, a, b))
				}
			}
		}
	}
	for _, op := range []string{"Negate", "Square", "Absolute", "Mult32max", "Mult32x19", "Mult32x2"} {
		for r := 0; r < 3; r++ {
			for a := 0; a < 3; a++ {
				names = append(names, fmt.Sprintf("%s %d %d 0", op, r, a))
			}
		}
	}
	for _, op := range []string{"Invert", "Pow22523"} {
		for r := 0; r < 3; r++ {
			names = append(names, fmt.Sprintf("%s %d %d 0", op, r, (r+1)%3))
		}
	}
	for a := 0; a < 3; a++ {
		for b := 0; b < 3; b++ {
			if a != b {
				names = append(names, fmt.Sprintf("Swap1 %d %d 0", a, b))
			}
		}
	}
	m := &core.Machine[feState]{
		Name: "C09/opseq",
		Inits: func(tier string) []feState {
			allOnes := bytes.Repeat([]byte{0xff}, 32) // limbs all 2^51-1: value 2^255-1 = p+18
			pm1 := ref.LE32(new(big.Int).Sub(ref.P, big.NewInt(1)))
			pB := ref.LE32(ref.P)
			g := ref.LE32(alpha.FieldValues(true)[13])
			one := ref.LE32(big.NewInt(1))
			zero := make([]byte, 32)
			sets := [][3][]byte{
				{allOnes, zero, one[:]},
				{allOnes, allOnes, g[:]},
				{pm1[:], pB[:], g[:]},
				{g[:], one[:], allOnes},
			}
			var out []feState
			for _, st := range sets {
				var s feState
				for i := 0; i < 3; i++ {
					if _, err := s.R[i].SetBytes(st[i]); err != nil {
						panic(err)
					}
					s.M[i] = ref.FDecode(st[i])
				}
				out = append(out, s)
			}
			return out
		},
		Ops:   func(string) []string { return names },
		Clone: func(s *feState) feState { return *s },
		Key: func(s *feState) []byte {
			var b []byte
			for i := range s.R {
				for _, w := range alpha.LimbsOf(&s.R[i]) {
					b = append(b, byte(w), byte(w>>8), byte(w>>16), byte(w>>24), byte(w>>32), byte(w>>40), byte(w>>48), byte(w>>56))
				}
			}
			return b
		},
		Apply: func(s *feState, op string) (bool, *core.Fail) {
			var name string
			var r, a, b int
			if n, _ := fmt.Sscanf(op, "%s %d %d %d", &name, &r, &a, &b); n != 4 {
				panic("bad op " + op)
			}
			var want *big.Int
			switch name {
			case "Add":
				s.R[r].Add(&s.R[a], &s.R[b])
				want = ref.FAdd(s.M[a], s.M[b])
			case "Subtract":
				s.R[r].Subtract(&s.R[a], &s.R[b])
				want = ref.FSub(s.M[a], s.M[b])
			case "Multiply":
				s.R[r].Multiply(&s.R[a], &s.R[b])
				want = ref.FMul(s.M[a], s.M[b])
			case "Negate":
				s.R[r].Negate(&s.R[a])
				want = ref.FNeg(s.M[a])
			case "Square":
				s.R[r].Square(&s.R[a])
				want = ref.FSq(s.M[a])
			case "Absolute":
				s.R[r].Absolute(&s.R[a])
				want = s.M[a]
				if want.Bit(0) == 1 {
					want = ref.FNeg(want)
				}
			case "Mult32max":
				s.R[r].Mult32(&s.R[a], 0xffffffff)
				want = ref.FMul(s.M[a], big.NewInt(0xffffffff))
			case "Mult32x19":
				s.R[r].Mult32(&s.R[a], 19)
				want = ref.FMul(s.M[a], big.NewInt(19))
			case "Mult32x2":
				s.R[r].Mult32(&s.R[a], 2)
				want = ref.FMul(s.M[a], big.NewInt(2))
			case "Invert":
				s.R[r].Invert(&s.R[a])
				want = ref.FInv(s.M[a])
			case "Pow22523":
				s.R[r].Pow22523(&s.R[a])
				want = ref.FPow(s.M[a], e22523)
			case "Swap1":
				s.R[r].Swap(&s.R[a], 1)
				s.M[r], s.M[a] = s.M[a], s.M[r]
				want = s.M[r]
			}
			s.M[r] = want
			l := alpha.LimbsOf(&s.R[r])
			c09MaxSeen.Lock()
			for i := range l {
				if l[i] > c09MaxSeen.l[i] {
					c09MaxSeen.l[i] = l[i]
				}
			}
			c09MaxSeen.Unlock()
			for i := 0; i < 3; i++ {
				if f := elemIs(&s.R[i], s.M[i], fmt.Sprintf("register %d after %s", i, op)); f != nil {
					return false, f
				}
			}
			return true, nil
		},
	}
	return m.Register()
}

var c09Machine = feMachine()

func init() { register("C09", "model_checking", runC09) }

func runC09(ctx *core.Ctx) {
	ctx.Rule("(1) abstract limb-bound model iterated to its least fixpoint (closed box); (2) conformance+correctness: every operation on every vector of the corner lattice L(K) of that box injected into the real code, value compared with math/big and output limbs with the model bound; all pairs of L(K4) for binary ops; all forms (API recipes + borrow forms) of alphabet F, all pairs; Mult32 chains of depth 3; (3) register machine over 3 Elements starting from SetBytes-constructible values, every op/receiver/argument choice, BFS with exact-state dedup. distinct_nontrivial = distinct result encodings")
	ctx.Assume("math/big is correct",
		"overflow/underflow obligations of the limb arithmetic are monotone in the limbs, so they hold on the whole box iff they hold at its top corner, which is among the injected vectors",
		"the closed box over-approximates the reachable representations; interior points of the box other than lattice points and alphabet forms are not executed",
		"unsafe limb injection is valid while field.Element is five uint64 limbs (layout guard checked at start)")
	limbModel()
	failedObl := 0
	for _, o := range lmModel.Obligations {
		if !o.OK {
			failedObl++
			ctx.Note(fmt.Sprintf("model obligation failed: %s: %s", o.Op, o.What))
		}
	}
	if failedObl > 0 {
		core.InternalError("limb model obligations fail on the model's own box; model is wrong")
	}
	ctx.Extra("limbmodel", map[string]any{"fixpoint_rounds": lmRounds, "box": lmBox.Uint64(), "box_excess_over_2^51": func() [5]uint64 {
		var e [5]uint64
		for i, b := range lmBox.Uint64() {
			e[i] = b - (mask51 + 1)
		}
		return e
	}(), "max_accumulator_bits": lmModel.MaxAccBits, "obligations": len(lmModel.Obligations), "abstract_transitions": len(lmOps)})

	unary := []string{"Negate", "Square", "Invert", "Pow22523", "Absolute", "Set"}
	ys := []uint32{0, 1, 2, 19, 1 << 16, 1 << 31, 0xffffffff}
	// lattice, unary
	kU := tierN(ctx, 5, 7)
	nU := latticeSize(kU)
	cheapUnary := []string{"Negate", "Square", "Absolute", "Set"}
	subC09Lattice.Run(ctx, nU*len(cheapUnary), func(i int) feCase {
		return feCase{Op: cheapUnary[i%len(cheapUnary)], A: elemIn{latticeAt(kU, i/len(cheapUnary))}}
	})
	subC09Lattice.Run(ctx, nU*len(ys), func(i int) feCase {
		return feCase{Op: "Mult32", A: elemIn{latticeAt(kU, i/len(ys))}, Y: ys[i%len(ys)]}
	})
	kI := sz(ctx, 3, 5, 7) // Invert / Pow22523 are ~250 multiplications each
	nI := latticeSize(kI)
	subC09Lattice.Run(ctx, nI*2, func(i int) feCase {
		return feCase{Op: []string{"Invert", "Pow22523"}[i%2], A: elemIn{latticeAt(kI, i/2)}}
	})
	// lattice, binary
	kB := sz(ctx, 3, 4, 5)
	nB := latticeSize(kB)
	binops := []string{"Add", "Subtract", "Multiply"}
	subC09Lattice.Run(ctx, nB*nB*len(binops), func(i int) feCase {
		op := binops[i%len(binops)]
		j := i / len(binops)
		return feCase{Op: op, A: elemIn{latticeAt(kB, j/nB)}, B: elemIn{latticeAt(kB, j%nB)}}
	})
	// forms of F
	forms := fieldForms(smoke(ctx))
	ctx.Extra("field_alphabet", map[string]any{"values": len(alpha.FieldValues(smoke(ctx))), "value_forms": len(forms)})
	subC09Forms.Run(ctx, len(forms)*len(unary), func(i int) feCase {
		return feCase{Op: unary[i%len(unary)], A: inOf(&forms[i/len(unary)].E)}
	})
	subC09Forms.Run(ctx, len(forms)*len(ys), func(i int) feCase {
		return feCase{Op: "Mult32", A: inOf(&forms[i/len(ys)].E), Y: ys[i%len(ys)]}
	})
	nf := len(forms)
	subC09Forms.Run(ctx, nf*nf*len(binops), func(i int) feCase {
		op := binops[i%len(binops)]
		j := i / len(binops)
		return feCase{Op: op, A: inOf(&forms[j/nf].E), B: inOf(&forms[j%nf].E)}
	})
	// every single-bit boundary value 2^k-1, 2^k, 2^k+1 (also the 32-bit word
	// boundaries inside a limb, which matter to 32x32 partial products)
	var bitv []elemIn
	for k := uint(0); k < 255; k++ {
		b := new(big.Int).Lsh(big.NewInt(1), k)
		for _, d := range []int64{-1, 0, 1} {
			v := new(big.Int).Add(b, big.NewInt(d))
			if v.Sign() >= 0 {
				bitv = append(bitv, elemIn{alpha.CanonLimbs(v)})
			}
		}
	}
	ysb := []uint32{0xffffffff, 0xfffffffe, 0xfffffffb, 0x80000000, 0x7fffffff, 0x10001, 3}
	subC09Forms.Run(ctx, len(bitv)*len(ysb), func(i int) feCase {
		return feCase{Op: "Mult32", A: bitv[i/len(ysb)], Y: ysb[i%len(ysb)]}
	})
	subC09Forms.Run(ctx, len(bitv)*len(cheapUnary), func(i int) feCase {
		return feCase{Op: cheapUnary[i%len(cheapUnary)], A: bitv[i/len(cheapUnary)]}
	})
	nbv := len(bitv)
	stride := sz(ctx, 37, 5, 1)
	subC09Forms.Run(ctx, (nbv/stride)*nbv*len(binops), func(i int) feCase {
		op := binops[i%len(binops)]
		j := i / len(binops)
		return feCase{Op: op, A: bitv[(j/nbv)*stride], B: bitv[j%nbv]}
	})
	// uniform forms: all five limbs at the same single-bit boundary (a path chosen by "every limb is
	// small" is only exercised when all limbs are small at once)
	var univ []elemIn
	for k := uint(1); k <= 51; k++ {
		for _, d := range []int64{-1, 0, 1} {
			m := uint64(int64(1)<<k + d)
			if m > 1<<51 {
				continue
			}
			univ = append(univ, elemIn{alpha.Limbs{m, m, m, m, m}})
		}
	}
	subC09Forms.Run(ctx, len(univ)*len(unary), func(i int) feCase {
		return feCase{Op: unary[i%len(unary)], A: univ[i/len(unary)]}
	})
	nu := len(univ)
	subC09Forms.Run(ctx, nu*nu*len(binops), func(i int) feCase {
		op := binops[i%len(binops)]
		j := i / len(binops)
		return feCase{Op: op, A: univ[j/nu], B: univ[j%nu]}
	})
	// Mult32 chains
	thens := []string{"Square", "Negate", "AddSelf", "SubFromZero", "MulSelf"}
	chainYs := []uint32{0xffffffff, 0xfffffffe, 1 << 31, 19, 1}
	kC := 3
	nC := latticeSize(kC)
	ny := len(chainYs)
	subC09Chain.Run(ctx, nC*ny*ny*ny*len(thens), func(i int) m32Chain {
		t := thens[i%len(thens)]
		i /= len(thens)
		y := [3]uint32{chainYs[i%ny], chainYs[(i/ny)%ny], chainYs[(i/ny/ny)%ny]}
		i /= ny * ny * ny
		return m32Chain{A: elemIn{latticeAt(kC, i)}, Ys: y, Op: t}
	})

	c09Machine.BFS(ctx, tierN(ctx, 2, 3), 4_000_000)

	// closure report
	c09Closure.mu.Lock()
	esc := 0
	for op, n := range c09Closure.escapes {
		esc += n
		ctx.Note(fmt.Sprintf("closure: %d outputs of %s exceed the abstract model's bound (e.g. %s)", n, op, c09Closure.sample[op]))
	}
	ctx.Extra("observed_max_limbs_by_op", c09Closure.max)
	c09Closure.mu.Unlock()
	ctx.Extra("observed_max_limbs_in_histories", c09MaxSeen.l)
	ctx.Extra("closure_escapes", esc)
	if esc > 0 {
		ctx.NotExhaustive("the code's carry discipline differs from the abstract limb model: the closed box is not confirmed; the verdict rests on the value checks of the lattice and of the history machine only")
	}
}
