package checks

import (
	"bytes"
	"fmt"
	"math/big"
	"strconv"
	"strings"
	"sync"

	"filippo.io/edwards25519"
	"filippo.io/edwards25519/field"
	"verif/harness/alpha"
	"verif/harness/core"
	"verif/harness/ref"
)

// The Point register machine: three Point registers (possibly uninitialised),
// a fixed scalar alphabet, and every exported operation that writes a Point as
// a transition, with every choice of receiver and argument registers (hence
// every aliasing pattern and every prior receiver state).

const nPReg = 3

type pState struct {
	P    [nPReg]edwards25519.Point
	Init [nPReg]bool
	M    [nPReg]ref.Pt
}

func pmScalars() []*big.Int {
	l := ref.L
	n8 := new(big.Int)
	for i := 0; i < 63; i++ {
		n8.Lsh(n8, 4)
		n8.Add(n8, big.NewInt(8))
	}
	return []*big.Int{
		big.NewInt(0), big.NewInt(1), big.NewInt(8), new(big.Int).Sub(l, big.NewInt(1)),
		alpha.GenericScalar, ref.SRed(n8), new(big.Int).Rsh(new(big.Int).Add(l, big.NewInt(1)), 1), big.NewInt(9),
	}
}

var pmScalarVals = pmScalars()
var pmScalarImplOnce = sync.OnceValue(func() []*edwards25519.Scalar {
	var o []*edwards25519.Scalar
	for _, v := range pmScalarVals {
		o = append(o, mkScalar(v))
	}
	return o
})

// decode alphabet for SetBytes transitions
type pmString struct {
	name string
	b    []byte
}

func pmStrings() []pmString {
	var out []pmString
	enc := func(p ref.Pt) []byte { e := ref.Encode(p); return e[:] }
	B := ref.Base()
	T := ref.Torsion()
	out = append(out,
		pmString{"B", enc(B)}, pmString{"identity", enc(ref.Identity())}, pmString{"T1", enc(T[1])}, pmString{"T4=(0,-1)", enc(T[4])},
		pmString{"T2", enc(T[2])}, pmString{"gB", enc(ref.Mul(alpha.GenericScalar, B))}, pmString{"T3+B", enc(ref.Add(T[3], B))},
		pmString{"-B", enc(ref.Neg(B))},
	)
	// non-canonical accepted
	nc := func(y *big.Int, sign byte) []byte { b := ref.LE32(y); b[31] |= sign << 7; return b[:] }
	out = append(out,
		pmString{"y=p+1 (identity, non-canonical)", nc(new(big.Int).Add(ref.P, big.NewInt(1)), 0)},
		pmString{"identity with sign bit", nc(big.NewInt(1), 1)},
		pmString{"(0,-1) with sign bit", nc(new(big.Int).Sub(ref.P, big.NewInt(1)), 1)},
		pmString{"y=p (=0), order 4", nc(ref.P, 0)},
		pmString{"y=p sign", nc(ref.P, 1)},
	)
	// invalid
	out = append(out, pmString{"all-ff", bytes.Repeat([]byte{0xff}, 32)})
	for y := int64(2); len(out) < 17; y++ {
		b := ref.LE32(big.NewInt(y))
		if _, ok := ref.Decode(b[:]); !ok {
			out = append(out, pmString{fmt.Sprintf("y=%d off-curve", y), b[:]})
		}
	}
	out = append(out, pmString{"len0", nil}, pmString{"len31", enc(B)[:31]}, pmString{"len33", append(enc(B), 0)}, pmString{"len64", append(enc(B), enc(B)...)})
	return out
}

var pmStringAlphabet = pmStrings()

func pmInitPoints() []struct {
	name string
	init bool
	pt   ref.Pt
	form int
} {
	B := ref.Base()
	T := ref.Torsion()
	type e = struct {
		name string
		init bool
		pt   ref.Pt
		form int
	}
	return []e{
		{"uninit", false, ref.Pt{}, 0},
		{"identity", true, ref.Identity(), 0},
		{"B", true, B, 0},
		{"T1(order 8)", true, T[1], 3},
		{"T1+gB form6", true, ref.Add(T[1], ref.Mul(alpha.GenericScalar, B)), 6},
	}
}

func pmMakeState(sel [nPReg]int) pState {
	ips := pmInitPoints()
	var s pState
	for i, k := range sel {
		ip := ips[k]
		s.Init[i] = ip.init
		if ip.init {
			s.P[i] = *alpha.MakePoint(ip.pt, ip.form)
			s.M[i] = ip.pt
		}
	}
	return s
}

func pmInits(tier string, mode string) []pState {
	var out []pState
	if mode == "full1" {
		for a := 0; a < 5; a++ {
			for b := 0; b < 5; b++ {
				for c := 0; c < 5; c++ {
					out = append(out, pmMakeState([nPReg]int{a, b, c}))
				}
			}
		}
		return out
	}
	sel := [][nPReg]int{{0, 0, 0}, {1, 2, 0}, {2, 3, 4}, {4, 1, 3}, {3, 0, 2}, {0, 4, 1}, {2, 2, 2}, {4, 4, 0}, {3, 3, 1}, {1, 1, 1}}
	if tier != "thorough" {
		sel = sel[:6]
		if mode == "full" {
			sel = [][nPReg]int{{2, 3, 4}, {0, 1, 2}}
		}
	}
	for _, s := range sel {
		out = append(out, pmMakeState(s))
	}
	return out
}

// pmOps builds the transition alphabet. np = registers in play; which
// selects operation families.
func pmOps(np int, fam map[string]bool, tier string) []string {
	var ops []string
	ns := len(pmScalarVals)
	small := fam["small-alphabets"]
	if small {
		ns = 5 // 0, 1, 8, l-1, generic
	}
	add := func(format string, a ...any) {
		ops = append(ops, fmt.Sprintf(format, a...))
	}
	for r := 0; r < np; r++ {
		if fam["set"] {
			for a := 0; a < np; a++ {
				if a != r {
					add("Set %d %d", r, a)
				}
			}
			for k := range pmStringAlphabet {
				if small && !(k < 4 || k == 8 || k == 10 || k == 13 || k == 14 || k == 18) {
					continue // valid, non-canonical, off-curve and wrong-length representatives
				}
				add("SetBytes %d %d", r, k)
			}
			for a := 0; a < np; a++ {
				for lam := 0; lam < 5; lam++ {
					if small && lam != 1 && lam != 4 {
						continue
					}
					add("SetExt %d %d %d", r, a, lam)
				}
				add("SetExtZ0 %d %d", r, a)   // (X,Y,0,T) of register a
				add("SetExtNegT %d %d", r, a) // (X,Y,Z,-T): both squares unchanged, XY = ZT broken unless T = 0
			}
			for k := 0; k < 6; k++ {
				if small && k != 0 && k != 3 {
					continue
				}
				add("SetExtBad %d %d", r, k)
			}
		}
		if fam["arith"] {
			for a := 0; a < np; a++ {
				for b := 0; b < np; b++ {
					add("Add %d %d %d", r, a, b)
					add("Subtract %d %d %d", r, a, b)
				}
				add("Negate %d %d", r, a)
				add("MultByCofactor %d %d", r, a)
			}
		}
		if fam["mult"] {
			for s := 0; s < ns; s++ {
				add("ScalarBaseMult %d %d", r, s)
				for a := 0; a < np; a++ {
					add("ScalarMult %d %d %d", r, s, a)
					add("MSM %d 1 %d %d", r, s, a)
					add("VTMSM %d 1 %d %d", r, s, a)
					// a from this scalar, b from a rotation
					add("VarTimeDouble %d %d %d %d", r, s, a, (s+3)%ns)
					if s < 2 {
						add("VarTimeDouble %d %d %d %d", r, s, a, s)
					}
				}
			}
			add("MSM %d 0", r)
			add("VTMSM %d 0", r)
			// two terms: scalar pairs x point pairs
			sp := [][2]int{{1, 1}, {3, 4}, {5, 2}, {0, 4}, {4, 6}}
			if small {
				sp = [][2]int{{3, 4}, {0, 2}}
			}
			for _, pr := range sp {
				for a := 0; a < np; a++ {
					for b := 0; b < np; b++ {
						add("MSM %d 2 %d %d %d %d", r, pr[0], a, pr[1], b)
						add("VTMSM %d 2 %d %d %d %d", r, pr[0], a, pr[1], b)
					}
				}
			}
			// three terms
			for _, tr := range [][6]int{{1, 0, 1, 1, 1, 2}, {4, 0, 3, 1, 5, 2}, {4, 2, 4, 2, 4, 2}, {3, 1, 0, 0, 6, 1}} {
				ok := true
				for i := 1; i < 6; i += 2 {
					if tr[i] >= np {
						ok = false
					}
				}
				if ok {
					add("MSM %d 3 %d %d %d %d %d %d", r, tr[0], tr[1], tr[2], tr[3], tr[4], tr[5])
					add("VTMSM %d 3 %d %d %d %d %d %d", r, tr[0], tr[1], tr[2], tr[3], tr[4], tr[5])
				}
			}
		}
	}
	return ops
}

func atoi(s string) int {
	n, err := strconv.Atoi(s)
	if err != nil {
		panic("bad op field " + s)
	}
	return n
}

func pmKey(s *pState) []byte {
	b := make([]byte, 0, nPReg*161)
	for i := range s.P {
		if !s.Init[i] {
			b = append(b, 0)
			continue
		}
		b = append(b, 1)
		b = append(b, alpha.PointRaw(&s.P[i])...)
	}
	return b
}

var (
	implIdentity  = sync.OnceValue(edwards25519.NewIdentityPoint)
	implGenerator = sync.OnceValue(edwards25519.NewGeneratorPoint)
)

// pmCheckReg evaluates the C12 invariant on one register.
func pmCheckReg(p *edwards25519.Point, want ref.Pt) *core.Fail {
	if f := pointMatches(p, want); f != nil {
		return f
	}
	eqI, eqG := 0, 0
	if want.Equal(ref.Identity()) {
		eqI = 1
	}
	if want.Equal(ref.Base()) {
		eqG = 1
	}
	if got := p.Equal(implIdentity()); got != eqI {
		return core.Failf("Equal(identity)=%d want %d for %s", got, eqI, want)
	}
	if got := p.Equal(implGenerator()); got != eqG {
		return core.Failf("Equal(generator)=%d want %d for %s", got, eqG, want)
	}
	// the other encoding of the same point must agree with the model too
	// (whatever history the register has)
	if m := ref.Montgomery(want); !bytes.Equal(p.BytesMontgomery(), m[:]) {
		return core.Failf("BytesMontgomery()=%x, model %x for %s", p.BytesMontgomery(), m[:], want)
	}
	return nil
}

// pmMisuse runs an operation that reads an uninitialised register. Whether it
// panics is C15's business; this machine only insists that IF it returns
// normally - a "successful public operation" in the words of C12 - the
// receiver does not become an invalid point. No successor state is produced
// either way (the model does not say what such a call should compute).
func pmMisuse(op string, recv *edwards25519.Point, call func()) (ok bool, fail *core.Fail) {
	panicked := func() (p bool) {
		defer func() {
			if recover() != nil {
				p = true
			}
		}()
		call()
		return false
	}()
	if panicked {
		return false, nil
	}
	var X, Y, Z, T *big.Int
	unusable := func() (u bool) {
		defer func() {
			if recover() != nil {
				u = true // still refuses to be read: not a Point anybody can use
			}
		}()
		_, X, Y, Z, T, _ = alpha.PointModel(recv)
		return false
	}()
	if unusable {
		return false, nil
	}
	if Z.Sign() == 0 || !ref.ExtendedValid(X, Y, Z, T) {
		return false, core.Failf("%s returned normally although it read an uninitialised Point, and left the receiver holding an invalid point that later operations accept (X=%x Y=%x Z=%x T=%x)", op, X, Y, Z, T)
	}
	return false, nil
}

func pmApply(s *pState, op string) (bool, *core.Fail) {
	f := strings.Fields(op)
	name := f[0]
	r := atoi(f[1])
	recv := &s.P[r]
	var rawBefore [nPReg]alpha.RawPoint
	for i := range s.P {
		rawBefore[i] = alpha.PointRaw(&s.P[i])
	}
	need := func(regs ...int) bool {
		for _, a := range regs {
			if !s.Init[a] {
				return false
			}
		}
		return true
	}
	var ret *edwards25519.Point
	var want ref.Pt
	expectErr := false
	var err error
	switch name {
	case "Set":
		a := atoi(f[2])
		if !need(a) {
			return false, nil
		}
		ret, want = recv.Set(&s.P[a]), s.M[a]
	case "SetBytes":
		in := pmStringAlphabet[atoi(f[2])].b
		pt, ok := ref.Decode(in)
		ret, err = recv.SetBytes(in)
		if !ok {
			expectErr = true
		} else {
			want = pt
		}
	case "SetExtNegT":
		a := atoi(f[2])
		if !need(a) {
			return false, nil
		}
		X, Y, Z, T := s.P[a].ExtendedCoordinates()
		tv := ref.FromLE(T.Bytes())
		T.Negate(T)
		ret, err = recv.SetExtendedCoordinates(X, Y, Z, T)
		if tv.Sign() == 0 {
			want = s.M[a] // T = 0: negation changes nothing
		} else {
			expectErr = true
		}
	case "SetExt", "SetExtZ0":
		a := atoi(f[2])
		if !need(a) {
			return false, nil
		}
		X, Y, Z, T := s.P[a].ExtendedCoordinates()
		if name == "SetExtZ0" {
			ret, err = recv.SetExtendedCoordinates(X, Y, new(field.Element), T)
			expectErr = true
		} else {
			lam := alpha.ElemRecipes(alpha.Lambdas()[atoi(f[3])])[atoi(f[3])%3]
			X.Multiply(X, &lam)
			Y.Multiply(Y, &lam)
			Z.Multiply(Z, &lam)
			T.Multiply(T, &lam)
			ret, err = recv.SetExtendedCoordinates(X, Y, Z, T)
			want = s.M[a]
		}
	case "SetExtBad":
		z, o := new(field.Element), new(field.Element).One()
		pl := alpha.ElemFromLimbs(Limbs{mask51 - 18, mask51, mask51, mask51, mask51}) // limbs of p: a non-canonical zero
		quads := [][4]*field.Element{{z, z, z, z}, {z, o, z, z}, {o, z, z, z}, {&pl, &pl, &pl, &pl}, {o, o, o, z}, {z, &pl, z, &pl}}
		q := quads[atoi(f[2])]
		ret, err = recv.SetExtendedCoordinates(q[0], q[1], q[2], q[3])
		expectErr = true
	case "Add", "Subtract":
		a, b := atoi(f[2]), atoi(f[3])
		if !need(a, b) {
			return pmMisuse(op, recv, func() {
				if name == "Add" {
					recv.Add(&s.P[a], &s.P[b])
				} else {
					recv.Subtract(&s.P[a], &s.P[b])
				}
			})
		}
		if name == "Add" {
			ret, want = recv.Add(&s.P[a], &s.P[b]), ref.Add(s.M[a], s.M[b])
		} else {
			ret, want = recv.Subtract(&s.P[a], &s.P[b]), ref.Sub(s.M[a], s.M[b])
		}
	case "Negate":
		a := atoi(f[2])
		if !need(a) {
			return pmMisuse(op, recv, func() { recv.Negate(&s.P[a]) })
		}
		ret, want = recv.Negate(&s.P[a]), ref.Neg(s.M[a])
	case "MultByCofactor":
		a := atoi(f[2])
		if !need(a) {
			return pmMisuse(op, recv, func() { recv.MultByCofactor(&s.P[a]) })
		}
		ret, want = recv.MultByCofactor(&s.P[a]), ref.Mul(big.NewInt(8), s.M[a])
	case "ScalarBaseMult":
		k := atoi(f[2])
		ret, want = recv.ScalarBaseMult(pmScalarImplOnce()[k]), ref.Mul(pmScalarVals[k], ref.Base())
	case "ScalarMult":
		k, a := atoi(f[2]), atoi(f[3])
		if !need(a) {
			return pmMisuse(op, recv, func() { recv.ScalarMult(pmScalarImplOnce()[k], &s.P[a]) })
		}
		ret, want = recv.ScalarMult(pmScalarImplOnce()[k], &s.P[a]), ref.Mul(pmScalarVals[k], s.M[a])
	case "VarTimeDouble":
		k, a, k2 := atoi(f[2]), atoi(f[3]), atoi(f[4])
		if !need(a) {
			return pmMisuse(op, recv, func() {
				recv.VarTimeDoubleScalarBaseMult(pmScalarImplOnce()[k], &s.P[a], pmScalarImplOnce()[k2])
			})
		}
		ret = recv.VarTimeDoubleScalarBaseMult(pmScalarImplOnce()[k], &s.P[a], pmScalarImplOnce()[k2])
		want = ref.Add(ref.Mul(pmScalarVals[k], s.M[a]), ref.Mul(pmScalarVals[k2], ref.Base()))
	case "MSM", "VTMSM":
		n := atoi(f[2])
		var sc []*edwards25519.Scalar
		var pts []*edwards25519.Point
		want = ref.Identity()
		misuse := false
		for i := 0; i < n; i++ {
			k, a := atoi(f[3+2*i]), atoi(f[4+2*i])
			sc = append(sc, pmScalarImplOnce()[k])
			pts = append(pts, &s.P[a])
			if !need(a) {
				misuse = true
				continue
			}
			want = ref.Add(want, ref.Mul(pmScalarVals[k], s.M[a]))
		}
		if misuse {
			return pmMisuse(op, recv, func() {
				if name == "MSM" {
					recv.MultiScalarMult(sc, pts)
				} else {
					recv.VarTimeMultiScalarMult(sc, pts)
				}
			})
		}
		if name == "MSM" {
			ret = recv.MultiScalarMult(sc, pts)
		} else {
			ret = recv.VarTimeMultiScalarMult(sc, pts)
		}
	default:
		panic("bad op " + op)
	}
	// registers other than the receiver must be bit-identical
	for i := range s.P {
		if i != r && s.Init[i] && alpha.PointRaw(&s.P[i]) != rawBefore[i] {
			// a representation-only rewrite of an operand is C11's/C18's
			// business; here the operand must still be the same valid point
			if f := pmCheckReg(&s.P[i], s.M[i]); f != nil {
				return false, core.Failf("%s changed register %d, which is not its receiver, into a different value: %s", op, i, f.Msg)
			}
		}
	}
	if expectErr {
		if err == nil || ret != nil {
			return false, core.Failf("%s: invalid input accepted (ret=%v err=%v)", op, ret != nil, err)
		}
		if alpha.PointRaw(recv) != rawBefore[r] {
			// atomicity of failed setters is C14's business; for this
			// machine the receiver must still be the valid point it was
			if s.Init[r] {
				if f := pmCheckReg(recv, s.M[r]); f != nil {
					return false, core.Failf("%s returned an error and left the receiver as an invalid or different point: %s", op, f.Msg)
				}
			} else {
				// previously uninitialised: it now holds whatever the failed
				// setter wrote; later reads must still panic or see a valid point
				ok := func() (ok bool) {
					defer func() {
						if recover() != nil {
							ok = true
						}
					}()
					recv.Bytes()
					return false
				}()
				if !ok {
					X, Y, Z, T := recv.ExtendedCoordinates()
					if !ref.ExtendedValid(ref.FromLE(X.Bytes()), ref.FromLE(Y.Bytes()), ref.FromLE(Z.Bytes()), ref.FromLE(T.Bytes())) {
						return false, core.Failf("%s returned an error but turned an uninitialised receiver into an invalid point that no longer panics", op)
					}
				}
			}
		}
		return false, nil // no state change: no successor
	}
	if err != nil {
		return false, core.Failf("%s: valid input rejected: %v", op, err)
	}
	if ret != recv {
		return false, core.Failf("%s did not return the receiver", op)
	}
	s.Init[r] = true
	s.M[r] = want
	enc := ref.Encode(want)
	pmReached.Store(enc, true)
	if f := pmCheckReg(recv, want); f != nil {
		return false, core.Failf("%s: %s", op, f.Msg)
	}
	return true, nil
}

func newPointMachine(name, mode string, np int, fam map[string]bool) *core.Machine[pState] {
	m := &core.Machine[pState]{
		Name:  name,
		Inits: func(tier string) []pState { return pmInits(tier, mode) },
		Ops:   func(tier string) []string { return pmOps(np, fam, tier) },
		Clone: func(s *pState) pState { return *s },
		Key:   pmKey,
		Apply: pmApply,
	}
	return m.Register()
}

// pmReached: distinct model points that occurred as results (non-vacuity).
var pmReached sync.Map

func pmReportReached(ctx *core.Ctx) {
	pmReached.Range(func(k, _ any) bool {
		e := k.([32]byte)
		ctx.Distinct("nontrivial:model-points-reached", e[:])
		return true
	})
}

var famAll = map[string]bool{"set": true, "arith": true, "mult": true}
var famAllSmall = map[string]bool{"set": true, "arith": true, "mult": true, "small-alphabets": true}
var famMult = map[string]bool{"mult": true}
var famMultSmall = map[string]bool{"mult": true, "small-alphabets": true}

var (
	c12Full1   = newPointMachine("C12/opseq-full-depth1", "full1", 3, famAll)
	c12Full    = newPointMachine("C12/opseq-full", "full", 3, famAll)
	c12Reduced = newPointMachine("C12/opseq-reduced", "reduced", 2, famAllSmall)
	c01Full1   = newPointMachine("C01/opseq-mult-depth1", "full1", 3, famMult)
	c01Full    = newPointMachine("C01/opseq-mult", "full", 3, famMult)
	c01Reduced = newPointMachine("C01/opseq-mult-reduced", "reduced", 2, famMultSmall)
)

func init() { register("C12", "model_checking", runC12) }

func runC12(ctx *core.Ctx) {
	ctx.Rule("explicit-state BFS over a register machine on the real API: 3 Point registers (uninitialised / identity / B / order-8 point / torsion+generic multiple in a scaled representation), 8-scalar alphabet, every exported Point-writing operation with every receiver/argument choice (Set, SetBytes over a 21-string alphabet of valid, non-canonical and invalid encodings, SetExtendedCoordinates from scaled exports and 7 degenerate quadruples, Add, Subtract, Negate, MultByCofactor, the five scalar multiplications with 0..3 terms); exact-state de-duplication; invariant in every successor: Z!=0, curve equation, XY=ZT, affine coordinates and Bytes() equal the shadow model, Equal vs identity/generator as in the model, non-receiver registers untouched, failing setters leave the receiver untouched")
	ctx.Assume("math/big is correct", "operation sequences longer than the completed depth and argument values outside the alphabets are not decided")
	if ctx.Quick() {
		c12Full1.BFS(ctx, 1, 2_000_000)
		c12Reduced.BFS(ctx, 2, 2_000_000)
		c12Full.BFS(ctx, 2, 2_000_000)
	} else {
		c12Full1.BFS(ctx, 1, 4_000_000)
		c12Full.BFS(ctx, 2, 6_000_000)
		c12Reduced.BFS(ctx, 3, 12_000_000)
	}
	pmReportReached(ctx)
	// multi-scalar calls by size class (a tree may switch algorithm with the number of terms): the
	// result must be a valid point equal to the model
	var mc []manyCase
	ns := []int{0, 1, 2, 3, 4, 5, 8, 9, 16, 17, 32, 33, 64, 65, 100, 128, 129, 190, 200, 256, 257}
	if !ctx.Quick() {
		ns = append(ns, 300, 400, 512, 513, 600, 1000, 1024, 1025)
	}
	for _, r := range []string{"MultiScalarMult", "VarTimeMultiScalarMult"} {
		for _, n := range ns {
			for si, sp := range []string{"small", "sparse", "zero", "one", "generic"} {
				pp := []string{"distinct", "mixed", "B", "two-pointers-mixed"}[(si+n)%4]
				mc = append(mc, manyCase{r, n, sp, pp, -1})
				if n > 0 {
					mc = append(mc, manyCase{r, n, sp, "mixed", n - 1})
				}
			}
		}
	}
	subC12Many.RunList(ctx, mc)
}
