package core

import (
	"encoding/json"
	"fmt"
	"os"
	"os/exec"
	"path/filepath"
	"runtime"
	"strconv"
	"strings"
	"sync"
	"time"
)

// Process sharding: a sub whose cases must not share process state (package
// globals of the library under test) is evaluated by K child processes of this
// binary, each walking its residue class of the index space sequentially.
// The child re-runs the same property function; only the named sub executes.

type shardSpec struct {
	sub     string
	ordinal int // which RunSharded call of that sub (0-based)
	i, k    int
	out     string
	seen    int
}

type shardResult struct {
	Cases     int64                `json:"cases"`
	Viol      []violation          `json:"viol"`
	Distinct  map[string][][8]byte `json:"distinct"`
	Completed bool                 `json:"completed"`
}

// InitShard reads VERIF_SHARD ("sub|i|k|outfile"); called by main.
func (c *Ctx) InitShard() {
	v := os.Getenv("VERIF_SHARD")
	if v == "" {
		return
	}
	f := strings.Split(v, "|")
	if len(f) != 5 {
		InternalError("bad VERIF_SHARD %q", v)
	}
	i, _ := strconv.Atoi(f[1])
	k, _ := strconv.Atoi(f[2])
	o, _ := strconv.Atoi(f[4])
	c.shard = &shardSpec{sub: f[0], i: i, k: k, out: f[3], ordinal: o}
}

func (c *Ctx) InShard() bool { return c.shard != nil }

func (c *Ctx) finishShard() {
	r := shardResult{Cases: c.evals, Viol: c.viol, Distinct: map[string][][8]byte{}, Completed: true}
	for cl, m := range c.distinct {
		for k := range m {
			r.Distinct[cl] = append(r.Distinct[cl], k)
		}
	}
	b, _ := json.Marshal(r)
	if err := os.WriteFile(c.shard.out, b, 0o644); err != nil {
		InternalError("shard: %v", err)
	}
	os.Exit(0)
}

// RunSharded evaluates the sub in K fresh child processes (sequential inside
// each). In a child, it evaluates this process's residue class.
func (s *Sub[C]) RunSharded(ctx *Ctx, n int, gen func(i int) C) {
	if ctx.shard != nil {
		if ctx.shard.sub != s.Name {
			return
		}
		if ctx.shard.seen != ctx.shard.ordinal {
			ctx.shard.seen++
			return
		}
		w := &Worker{c: ctx, local: map[string]map[[8]byte]struct{}{}}
		for i := ctx.shard.i; i < n; i += ctx.shard.k {
			c := gen(i)
			ctx.evals++
			if f := safeEval(s.Eval, w, c); f != nil {
				raw, _ := json.Marshal(c)
				ctx.viol = append(ctx.viol, violation{Sub: s.Name, Index: i, Case: raw, Msg: f.Msg})
				break // process state may be corrupted from here on
			}
		}
		w.flush()
		ctx.finishShard()
	}
	ctx.mu.Lock()
	if ctx.shardCalls == nil {
		ctx.shardCalls = map[string]int{}
	}
	ordinal := ctx.shardCalls[s.Name]
	ctx.shardCalls[s.Name]++
	ctx.mu.Unlock()
	k := runtime.GOMAXPROCS(0)
	if k > n {
		k = n
	}
	if k < 1 {
		k = 1
	}
	exe, err := os.Executable()
	if err != nil {
		InternalError("%v", err)
	}
	dir, err := os.MkdirTemp(os.Getenv("VERIF_WORK"), "shard")
	if err != nil {
		InternalError("%v", err)
	}
	defer os.RemoveAll(dir)
	st := &SubStat{}
	ctx.mu.Lock()
	if old, ok := ctx.subs[s.Name]; ok {
		st = old
	} else {
		ctx.subs[s.Name] = st
		ctx.subOrder = append(ctx.subOrder, s.Name)
	}
	ctx.mu.Unlock()
	var wg sync.WaitGroup
	results := make([]shardResult, k)
	errs := make([]error, k)
	for i := 0; i < k; i++ {
		wg.Add(1)
		go func(i int) {
			defer wg.Done()
			out := filepath.Join(dir, fmt.Sprintf("shard%d.json", i))
			args := []string{"-prop", ctx.Prop, "-tier", ctx.Tier}
			if !ctx.Deadline.IsZero() {
				rem := time.Until(ctx.Deadline)
				if rem < time.Second {
					rem = time.Second
				}
				args = append(args, "-deadline", rem.String())
			}
			cmd := exec.Command(exe, args...)
			cmd.Env = append(os.Environ(), fmt.Sprintf("VERIF_SHARD=%s|%d|%d|%s|%d", s.Name, i, k, out, ordinal), "GOMAXPROCS=2")
			cmd.Stderr = os.Stderr
			if err := cmd.Run(); err != nil {
				errs[i] = fmt.Errorf("shard %d: %v", i, err)
				return
			}
			b, err := os.ReadFile(out)
			if err != nil {
				errs[i] = err
				return
			}
			errs[i] = json.Unmarshal(b, &results[i])
		}(i)
	}
	wg.Wait()
	var total int64
	for i := range results {
		if errs[i] != nil {
			InternalError("sharded run of %s failed: %v", s.Name, errs[i])
		}
		total += results[i].Cases
		ctx.mu.Lock()
		for _, v := range results[i].Viol {
			st.Violations++
			ctx.totalViol++
			ctx.viol = append(ctx.viol, v)
		}
		for cl, ks := range results[i].Distinct {
			g := ctx.distinct[cl]
			if g == nil {
				g = map[[8]byte]struct{}{}
				ctx.distinct[cl] = g
			}
			for _, key := range ks {
				g[key] = struct{}{}
			}
		}
		ctx.mu.Unlock()
	}
	ctx.evals += total
	st.Cases += total
	st.Completed = int(total) == n
	if !st.Completed && len(ctx.viol) == 0 {
		ctx.NotExhaustive(fmt.Sprintf("%s: shards evaluated %d of %d cases", s.Name, total, n))
	}
	for _, i := range []int{0, n / 2, n - 1} {
		ctx.Sample(map[string]any{"sub": s.Name, "index": i, "case": gen(i)})
	}
}
