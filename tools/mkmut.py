#!/usr/bin/env python3
"""tools/mkmut.py <name> <file> <<< 'OLD\n=====\nNEW'  -> mutants/<name>.patch (diff against /repo HEAD)"""
import sys,subprocess,tempfile,os,shutil
name,rel=sys.argv[1],sys.argv[2]
old,new=sys.stdin.read().split("\n=====\n")
new=new.rstrip("\n")
src=subprocess.check_output(["git","-C","/repo","show","HEAD:"+rel]).decode()
assert src.count(old)==1,("pattern count",src.count(old))
d=tempfile.mkdtemp()
os.makedirs(os.path.join(d,"a",os.path.dirname(rel)),exist_ok=True);os.makedirs(os.path.join(d,"b",os.path.dirname(rel)),exist_ok=True)
open(os.path.join(d,"a",rel),"w").write(src);open(os.path.join(d,"b",rel),"w").write(src.replace(old,new))
p=subprocess.run(["diff","-u","a/"+rel,"b/"+rel],cwd=d,capture_output=True,text=True).stdout
open("/verif/mutants/%s.patch"%name,"w").write(p)
shutil.rmtree(d);print("wrote mutants/%s.patch (%d lines)"%(name,p.count("\n")))
