//go:build ctbuild

package checks

import (
	"bytes"
	"encoding/json"
	"fmt"
	"math/big"
	"os"
	"sort"
	"sync"

	"filippo.io/edwards25519"
	"filippo.io/edwards25519/field"
	"filippo.io/edwards25519/vtrace"
	"verif/harness/alpha"
	"verif/harness/core"
	"verif/harness/ref"
)

// C03 - constant-time operations leak only argument lengths.
//
// 2-safety by enumeration: every constant-time entry point is executed under
// the leakage-trace build on every secret of an alphabet; all executions in
// one public-shape class must produce the identical trace.

type ctIn struct {
	Entry string  `json:"entry"`
	K     Hex     `json:"k,omitempty"`
	K2    Hex     `json:"k2,omitempty"`
	K3    Hex     `json:"k3,omitempty"`
	Q     *ptIn   `json:"q,omitempty"`
	R     *ptIn   `json:"r,omitempty"`
	E1    *elemIn `json:"e1,omitempty"`
	E2    *elemIn `json:"e2,omitempty"`
	Cond  int     `json:"cond,omitempty"`
	Y     uint32  `json:"y,omitempty"`
	Bytes Hex     `json:"bytes,omitempty"`
	Ks    []Hex   `json:"ks,omitempty"`
	Qs    []ptIn  `json:"qs,omitempty"`
	Digit int     `json:"digit,omitempty"`
}

var ctMu sync.Mutex // the trace runtime is global: one traced execution at a time

func zeroBits(p *edwards25519.Point) string {
	// The API makes "is this the zero value" a validity question; how the
	// guard evaluates it (which coordinates, in which order, short-circuit or
	// not) is an implementation choice. The shape therefore records, for every
	// coordinate independently, whether its limbs are all zero: a finer
	// partition than any such guard needs, which can only split classes, never
	// merge executions that a correct guard distinguishes.
	raw := alpha.PointLimbs(p)
	out := ""
	for c, name := range []string{"x", "y", "z", "t"} {
		zero := true
		for i := 0; i < 5; i++ {
			if raw[5*c+i] != 0 {
				zero = false
			}
		}
		if zero {
			out += name + "=0,"
		}
	}
	if out == "" {
		return "no-zero-coordinate"
	}
	return out
}

// prepare builds the inputs (untraced) and returns the traced thunk plus the
// public shape of the call.
func (c ctIn) prepare() (run func(), shape string) {
	sc := func(h Hex) *edwards25519.Scalar { return scalarOf(h) }
	shape = c.Entry
	switch c.Entry {
	case "Point.ScalarMult":
		k, q := sc(c.K), c.Q.point()
		v := new(edwards25519.Point)
		return func() { v.ScalarMult(k, q) }, shape + "/" + zeroBits(q)
	case "Point.ScalarBaseMult":
		k := sc(c.K)
		v := new(edwards25519.Point)
		return func() { v.ScalarBaseMult(k) }, shape
	case "Point.MultiScalarMult":
		var ks []*edwards25519.Scalar
		var qs []*edwards25519.Point
		shape += fmt.Sprintf("/n=%d", len(c.Ks))
		for i := range c.Ks {
			ks = append(ks, sc(c.Ks[i]))
			q := c.Qs[i].point()
			qs = append(qs, q)
			shape += "/" + zeroBits(q)
		}
		v := edwards25519.NewIdentityPoint()
		return func() { v.MultiScalarMult(ks, qs) }, shape
	case "Point.Add", "Point.Subtract", "Point.Equal":
		q, r := c.Q.point(), c.R.point()
		v := new(edwards25519.Point)
		shape += "/" + zeroBits(q) + "/" + zeroBits(r)
		switch c.Entry {
		case "Point.Add":
			return func() { v.Add(q, r) }, shape
		case "Point.Subtract":
			return func() { v.Subtract(q, r) }, shape
		default:
			return func() { q.Equal(r) }, shape
		}
	case "Point.Negate", "Point.MultByCofactor", "Point.Bytes", "Point.BytesMontgomery", "Point.ExtendedCoordinates", "Point.Set", "Point.SetExtendedCoordinates":
		q := c.Q.point()
		v := new(edwards25519.Point)
		shape += "/" + zeroBits(q)
		switch c.Entry {
		case "Point.Negate":
			return func() { v.Negate(q) }, shape
		case "Point.MultByCofactor":
			return func() { v.MultByCofactor(q) }, shape
		case "Point.Bytes":
			return func() { q.Bytes() }, shape
		case "Point.BytesMontgomery":
			return func() { q.BytesMontgomery() }, shape
		case "Point.ExtendedCoordinates":
			return func() { q.ExtendedCoordinates() }, shape
		case "Point.Set":
			return func() { v.Set(q) }, shape
		default:
			X, Y, Z, T := q.ExtendedCoordinates()
			return func() {
				if _, err := v.SetExtendedCoordinates(X, Y, Z, T); err != nil {
					panic("valid coordinates rejected")
				}
			}, c.Entry
		}
	case "Point.SetBytes":
		b := append([]byte{}, c.Bytes...)
		v := new(edwards25519.Point)
		return func() {
			if _, err := v.SetBytes(b); err != nil {
				panic("valid encoding rejected")
			}
		}, shape
	case "table.SelectInto(proj)":
		q := c.Q.point()
		return func() { shimProjSelect(q, int8(c.Digit)) }, shape + "/" + zeroBits(q)
	case "table.SelectInto(basepoint)":
		return func() { shimBaseSelect(c.Cond, int8(c.Digit)) }, shape
	case "Scalar.Add", "Scalar.Subtract", "Scalar.Multiply", "Scalar.Equal":
		a, b := sc(c.K), sc(c.K2)
		v := new(edwards25519.Scalar)
		switch c.Entry {
		case "Scalar.Add":
			return func() { v.Add(a, b) }, shape
		case "Scalar.Subtract":
			return func() { v.Subtract(a, b) }, shape
		case "Scalar.Multiply":
			return func() { v.Multiply(a, b) }, shape
		default:
			return func() { a.Equal(b) }, shape
		}
	case "Scalar.MultiplyAdd":
		a, b, d := sc(c.K), sc(c.K2), sc(c.K3)
		v := new(edwards25519.Scalar)
		return func() { v.MultiplyAdd(a, b, d) }, shape
	case "Scalar.Negate", "Scalar.Invert", "Scalar.Bytes", "Scalar.Set":
		a := sc(c.K)
		v := new(edwards25519.Scalar)
		switch c.Entry {
		case "Scalar.Negate":
			return func() { v.Negate(a) }, shape
		case "Scalar.Invert":
			return func() { v.Invert(a) }, shape
		case "Scalar.Bytes":
			return func() { a.Bytes() }, shape
		default:
			return func() { v.Set(a) }, shape
		}
	case "Scalar.SetUniformBytes", "Scalar.SetBytesWithClamping":
		b := append([]byte{}, c.Bytes...)
		v := new(edwards25519.Scalar)
		if c.Entry == "Scalar.SetUniformBytes" {
			return func() { v.SetUniformBytes(b) }, shape + fmt.Sprintf("/len=%d", len(b))
		}
		return func() { v.SetBytesWithClamping(b) }, shape + fmt.Sprintf("/len=%d", len(b))
	case "Element.Add", "Element.Subtract", "Element.Multiply", "Element.Equal", "Element.SqrtRatio", "Element.Select", "Element.Swap":
		a, b := c.E1.elem(), c.E2.elem()
		var v field.Element
		switch c.Entry {
		case "Element.Add":
			return func() { v.Add(&a, &b) }, shape
		case "Element.Subtract":
			return func() { v.Subtract(&a, &b) }, shape
		case "Element.Multiply":
			return func() { v.Multiply(&a, &b) }, shape
		case "Element.Equal":
			return func() { a.Equal(&b) }, shape
		case "Element.SqrtRatio":
			return func() { v.SqrtRatio(&a, &b) }, shape
		case "Element.Select":
			return func() { v.Select(&a, &b, c.Cond) }, shape
		default:
			return func() { a.Swap(&b, c.Cond) }, shape
		}
	case "Element.Negate", "Element.Square", "Element.Invert", "Element.Pow22523", "Element.Absolute", "Element.IsNegative", "Element.Bytes", "Element.Set", "Element.Mult32":
		a := c.E1.elem()
		var v field.Element
		switch c.Entry {
		case "Element.Negate":
			return func() { v.Negate(&a) }, shape
		case "Element.Square":
			return func() { v.Square(&a) }, shape
		case "Element.Invert":
			return func() { v.Invert(&a) }, shape
		case "Element.Pow22523":
			return func() { v.Pow22523(&a) }, shape
		case "Element.Absolute":
			return func() { v.Absolute(&a) }, shape
		case "Element.IsNegative":
			return func() { a.IsNegative() }, shape
		case "Element.Bytes":
			return func() { a.Bytes() }, shape
		case "Element.Set":
			return func() { v.Set(&a) }, shape
		default:
			return func() { v.Mult32(&a, c.Y) }, shape
		}
	case "Element.SetBytes", "Element.SetWideBytes":
		b := append([]byte{}, c.Bytes...)
		var v field.Element
		if c.Entry == "Element.SetBytes" {
			return func() { v.SetBytes(b) }, shape + fmt.Sprintf("/len=%d", len(b))
		}
		return func() { v.SetWideBytes(b) }, shape + fmt.Sprintf("/len=%d", len(b))
	}
	panic("unknown ct entry " + c.Entry)
}

type ctTrace struct {
	h   uint64
	n   int
	log []vtrace.Event
}

var ctWarm sync.Once

func (c ctIn) trace(logging bool) (t ctTrace, shape string) {
	ctMu.Lock()
	defer ctMu.Unlock()
	ctWarm.Do(func() {
		// build both lazily initialised tables outside any compared trace:
		// the one-time path depends on process history, not on secrets
		one := mkScalar(big.NewInt(1))
		new(edwards25519.Point).ScalarBaseMult(one)
		new(edwards25519.Point).VarTimeDoubleScalarBaseMult(one, edwards25519.NewGeneratorPoint(), one)
	})
	run, shape := c.prepare()
	vtrace.Reset(logging)
	func() {
		defer func() {
			if r := recover(); r != nil {
				vtrace.Stop()
				panic(r)
			}
		}()
		run()
	}()
	t.h, t.n = vtrace.Stop()
	if logging {
		t.log = append([]vtrace.Event{}, vtrace.Log...)
	}
	return t, shape
}

type ctPair struct {
	A ctIn `json:"a"`
	B ctIn `json:"b"`
}

type ctSite struct {
	ID   int    `json:"id"`
	Pos  string `json:"pos"`
	Kind string `json:"kind"`
	Func string `json:"func"`
}

var ctSites = sync.OnceValue(func() map[uint32]ctSite {
	m := map[uint32]ctSite{}
	b, err := os.ReadFile(os.Getenv("VERIF_CT_REPORT"))
	if err != nil {
		return m
	}
	var r struct {
		Sites []ctSite `json:"sites"`
	}
	json.Unmarshal(b, &r)
	for _, s := range r.Sites {
		m[uint32(s.ID)] = s
	}
	return m
})

func describeDiff(a, b ctTrace) string {
	n := len(a.log)
	if len(b.log) < n {
		n = len(b.log)
	}
	for i := 0; i < n; i++ {
		if a.log[i] != b.log[i] {
			sa, sb := ctSites()[a.log[i].Site], ctSites()[b.log[i].Site]
			if a.log[i].Site == b.log[i].Site {
				return fmt.Sprintf("first difference at event %d: %s at %s in %s: value %d vs %d", i, sa.Kind, sa.Pos, sa.Func, a.log[i].Val, b.log[i].Val)
			}
			return fmt.Sprintf("first difference at event %d: control flow diverged: %s at %s (%s) vs %s at %s (%s)", i, sa.Kind, sa.Pos, sa.Func, sb.Kind, sb.Pos, sb.Func)
		}
	}
	return fmt.Sprintf("traces have different lengths (%d vs %d events), equal up to the shorter", len(a.log), len(b.log))
}

func init() {
	core.RegisterReplayer("C03/trace-pair", func(raw json.RawMessage) *core.Fail {
		var p ctPair
		if err := json.Unmarshal(raw, &p); err != nil {
			core.InternalError("%v", err)
		}
		var ta, tb ctTrace
		var sa, sb string
		var f *core.Fail
		func() {
			defer func() {
				if r := recover(); r != nil {
					f = core.PanicToFail(r)
				}
			}()
			ta, sa = p.A.trace(true)
			tb, sb = p.B.trace(true)
		}()
		if f != nil {
			return f
		}
		if sa != sb {
			core.InternalError("C03 replay: the two inputs are not in one shape class (%s vs %s)", sa, sb)
		}
		if ta.h == tb.h && ta.n == tb.n {
			return nil
		}
		return core.Failf("%s [%s]: two inputs with the same public shape produce different leakage traces: %s", p.A.Entry, sa, describeDiff(ta, tb))
	})
	core.RegisterReplayer("C03/asm-trace", func(raw json.RawMessage) *core.Fail { return asmTraceVerdict(nil) })
	register("C03", "exploration", runC03)
}

// asmTraceVerdict reads the result of the gdb single-step tracer that ./check
// ran over the dispatched multiply / square (assembly on amd64).
func asmTraceVerdict(ctx *core.Ctx) *core.Fail {
	f := os.Getenv("VERIF_ASM_TRACE")
	if f == "" {
		return nil
	}
	b, err := os.ReadFile(f)
	if err != nil {
		return nil
	}
	var r map[string]json.RawMessage
	if json.Unmarshal(b, &r) != nil {
		return nil
	}
	if ctx != nil {
		var v any
		json.Unmarshal(b, &v)
		if m, ok := v.(map[string]any); ok {
			delete(m, "samples")
			ctx.Extra("assembly_single_step_trace", m)
		}
	}
	if _, skipped := r["skipped"]; skipped {
		if ctx != nil {
			ctx.Note("assembly single-step tracer skipped: " + string(r["skipped"]))
		}
		return nil
	}
	for fn, raw := range r {
		var st struct {
			Calls    int `json:"calls"`
			Distinct int `json:"distinct_traces"`
			Instr    int `json:"instructions_per_call"`
		}
		if fn == "samples" || json.Unmarshal(raw, &st) != nil {
			continue
		}
		if st.Calls > 0 && st.Distinct > 1 {
			return core.Failf("%s: %d calls on different limb inputs (same buffers) gave %d distinct instruction/address traces: control flow or addressing depends on operand values", fn, st.Calls, st.Distinct)
		}
	}
	return nil
}

func ctInputs(ctx *core.Ctx) []ctIn {
	var ins []ctIn
	quick := ctx.Quick()
	S := alpha.Scalars(quick)
	wit, _, _ := radix16Witnesses()
	var scal []Hex
	for i, k := range wit {
		if !quick || i%5 == 0 {
			scal = append(scal, le32(k))
		}
	}
	for i, k := range S {
		if !quick || i%2 == 0 {
			scal = append(scal, le32(k))
		}
	}
	pts := pointIns(quick, []int{0, 6, 5, 3})
	pp := func(i int) *ptIn { p := pts[i%len(pts)]; return &p }
	// scalar multiplication
	for i, k := range scal {
		ins = append(ins, ctIn{Entry: "Point.ScalarBaseMult", K: k})
		ins = append(ins, ctIn{Entry: "Point.ScalarMult", K: k, Q: pp(i)})
		if i%4 == 0 {
			for j := 1; j <= 3; j++ {
				ins = append(ins, ctIn{Entry: "Point.ScalarMult", K: k, Q: pp(i + 7*j)})
			}
		}
	}
	for i := range pts {
		for _, k := range []int{0, 1, 2, 3, len(scal) / 2, len(scal) - 1} {
			ins = append(ins, ctIn{Entry: "Point.ScalarMult", K: scal[k], Q: pp(i)})
		}
	}
	for n := 0; n <= 3; n++ {
		for i := 0; i < len(scal); i += 3 {
			c := ctIn{Entry: "Point.MultiScalarMult"}
			for j := 0; j < n; j++ {
				c.Ks = append(c.Ks, scal[(i+j*11)%len(scal)])
				c.Qs = append(c.Qs, *pp(i + j*5))
			}
			ins = append(ins, c)
			if n == 0 {
				break
			}
		}
	}
	// point arithmetic, comparison, encoding
	for i := range pts {
		for j := range pts {
			if quick && (i+j)%3 != 0 {
				continue
			}
			for _, e := range []string{"Point.Add", "Point.Subtract", "Point.Equal"} {
				ins = append(ins, ctIn{Entry: e, Q: pp(i), R: pp(j)})
			}
		}
		for _, e := range []string{"Point.Negate", "Point.MultByCofactor", "Point.Bytes", "Point.BytesMontgomery", "Point.ExtendedCoordinates", "Point.Set", "Point.SetExtendedCoordinates"} {
			ins = append(ins, ctIn{Entry: e, Q: pp(i)})
		}
		ins = append(ins, ctIn{Entry: "Point.SetBytes", Bytes: pts[i].Enc})
		if shimAvailable {
			for d := -8; d <= 8; d++ {
				ins = append(ins, ctIn{Entry: "table.SelectInto(proj)", Q: pp(i), Digit: d})
			}
		}
	}
	// accepted non-canonical encodings are valid inputs too
	for d := int64(0); d < 19; d++ {
		for s := 0; s < 2; s++ {
			b := ref.LE32(new(big.Int).Add(ref.P, big.NewInt(d)))
			b[31] |= byte(s) << 7
			if _, ok := ref.Decode(b[:]); ok {
				ins = append(ins, ctIn{Entry: "Point.SetBytes", Bytes: Hex(b[:])})
			}
		}
	}
	if !shimAvailable {
		ctx.Note("in-package shim unavailable on this tree (an internal was renamed): the direct table.SelectInto entries are skipped; the table lookups are still traced inside every scalar multiplication entry")
	}
	if shimAvailable {
		for t := 0; t < 32; t += 5 {
			for d := -8; d <= 8; d++ {
				ins = append(ins, ctIn{Entry: "table.SelectInto(basepoint)", Cond: t, Digit: d})
			}
		}
	}
	// scalars
	for i, a := range scal {
		b := scal[(i*7+3)%len(scal)]
		for _, e := range []string{"Scalar.Add", "Scalar.Subtract", "Scalar.Multiply", "Scalar.Equal"} {
			ins = append(ins, ctIn{Entry: e, K: a, K2: b})
		}
		ins = append(ins, ctIn{Entry: "Scalar.Equal", K: a, K2: a})
		ins = append(ins, ctIn{Entry: "Scalar.MultiplyAdd", K: a, K2: b, K3: scal[(i*3+1)%len(scal)]})
		for _, e := range []string{"Scalar.Negate", "Scalar.Bytes", "Scalar.Set"} {
			ins = append(ins, ctIn{Entry: e, K: a})
		}
		if i%3 == 0 {
			ins = append(ins, ctIn{Entry: "Scalar.Invert", K: a})
		}
		w := append(append([]byte{}, a...), b...)
		ins = append(ins, ctIn{Entry: "Scalar.SetUniformBytes", Bytes: Hex(w)})
		ins = append(ins, ctIn{Entry: "Scalar.SetBytesWithClamping", Bytes: a})
	}
	ins = append(ins, ctIn{Entry: "Scalar.SetBytesWithClamping", Bytes: Hex(bytes.Repeat([]byte{0xff}, 32))}, ctIn{Entry: "Scalar.SetUniformBytes", Bytes: Hex(bytes.Repeat([]byte{0xff}, 64))})
	// field elements: every form of F plus lattice corners
	var els []elemIn
	for _, f := range fieldForms(quick) {
		els = append(els, inOf(&f.E))
	}
	k := 3
	for i := 0; i < latticeSize(k); i += sz(ctx, 7, 7, 1) {
		els = append(els, elemIn{latticeAt(k, i)})
	}
	ep := func(i int) *elemIn { e := els[i%len(els)]; return &e }
	for i := range els {
		for _, e := range []string{"Element.Negate", "Element.Square", "Element.Absolute", "Element.IsNegative", "Element.Bytes", "Element.Set"} {
			ins = append(ins, ctIn{Entry: e, E1: ep(i)})
		}
		if i%3 == 0 {
			ins = append(ins, ctIn{Entry: "Element.Invert", E1: ep(i)}, ctIn{Entry: "Element.Pow22523", E1: ep(i)})
		}
		for _, y := range []uint32{0, 1, 19, 0xffffffff} {
			ins = append(ins, ctIn{Entry: "Element.Mult32", E1: ep(i), Y: y})
		}
		for _, j := range []int{i, i + 1, i*5 + 2, len(els) - 1 - i} {
			for _, e := range []string{"Element.Add", "Element.Subtract", "Element.Multiply", "Element.Equal", "Element.SqrtRatio"} {
				ins = append(ins, ctIn{Entry: e, E1: ep(i), E2: ep(j)})
			}
			for cond := 0; cond < 2; cond++ {
				ins = append(ins, ctIn{Entry: "Element.Select", E1: ep(i), E2: ep(j), Cond: cond}, ctIn{Entry: "Element.Swap", E1: ep(i), E2: ep(j), Cond: cond})
			}
		}
		b := ref.LE32(ep(i).value())
		ins = append(ins, ctIn{Entry: "Element.SetBytes", Bytes: Hex(b[:])})
		ins = append(ins, ctIn{Entry: "Element.SetWideBytes", Bytes: Hex(append(b[:], b[:]...))})
	}
	ins = append(ins, ctIn{Entry: "Element.SetBytes", Bytes: Hex(bytes.Repeat([]byte{0xff}, 32))}, ctIn{Entry: "Element.SetWideBytes", Bytes: Hex(bytes.Repeat([]byte{0xff}, 64))})
	return ins
}

func runC03(ctx *core.Ctx) {
	ctx.Rule("for every constant-time entry point (ScalarMult, ScalarBaseMult, MultiScalarMult with 0..3 terms, point arithmetic/comparison/encoding/coordinate export and import, table selection for every digit -8..8, all Scalar arithmetic/encoding, all field.Element operations incl. Select/Swap with both cond bits) every input of a structured secret alphabet (radix-16 transition witnesses + alphabet S; alphabet P x representations; field forms + lattice corners) is executed under a leakage-trace build generated from the working tree; executions are grouped by public shape (entry point, slice lengths, outcome of the documented zero-value test per Point argument) and every class must contain exactly one distinct trace. The trace records branch outcomes, index and slice-bound values, shift counts, div/mod operands, composite comparisons, operands of variable-time library calls. VarTime functions and the accept/reject decision of decoders are exempt as the statement says. distinct_nontrivial = executions with distinct inputs beyond the first of their class (each is a pair compared)")
	ctx.Assume("source-level leakage model: what the compiler makes of branch-free Go, and micro-architectural effects, are not observed",
		"bits.Mul64/Add64/Sub64, crypto/subtle and encoding/binary are trusted to be constant time",
		"the amd64 assembly is covered at instruction level by the gdb single-step tracer (asm sub-check), not by this trace")
	if f := asmTraceVerdict(ctx); f != nil {
		ctx.ReportViolation("C03/asm-trace", 0, map[string]string{"what": "gdb single-step trace of feMul/feSquare"}, f.Msg)
	}
	ins := ctInputs(ctx)
	type class struct {
		first ctIn
		t     ctTrace
		n     int
	}
	classes := map[string]*class{}
	var order []string
	var events int64
	maxEvents := 0
	for i, in := range ins {
		var t ctTrace
		var shape string
		var fail *core.Fail
		func() {
			defer func() {
				if r := recover(); r != nil {
					fail = core.PanicToFail(r)
				}
			}()
			t, shape = in.trace(false)
		}()
		if fail != nil {
			ctx.ReportViolation("C03/trace-pair", i, ctPair{in, in}, fail.Msg)
			continue
		}
		events += int64(t.n)
		if t.n > maxEvents {
			maxEvents = t.n
		}
		c := classes[shape]
		if c == nil {
			classes[shape] = &class{first: in, t: t, n: 1}
			order = append(order, shape)
			continue
		}
		c.n++
		ctx.Distinct("nontrivial:compared-executions", []byte(fmt.Sprint(i)))
		if t.h != c.t.h || t.n != c.t.n {
			ta, _ := c.first.trace(true)
			tb, _ := in.trace(true)
			ctx.ReportViolation("C03/trace-pair", i, ctPair{c.first, in}, fmt.Sprintf("%s [%s]: two inputs with the same public shape produce different leakage traces: %s", in.Entry, shape, describeDiff(ta, tb)))
		}
		if ctx.Expired() {
			ctx.NotExhaustive("deadline")
			break
		}
	}
	ctx.AddEvals(int64(len(ins)))
	ctx.SubDone("C03/trace-pair", int64(len(ins)), true)
	entries := map[string]int{}
	for _, s := range order {
		entries[classes[s].first.Entry]++
	}
	// site coverage
	sites := ctSites()
	var unreached []string
	reached := 0
	for id, s := range sites {
		if int(id) < len(vtrace.Reached) && vtrace.Reached[id] {
			reached++
		} else {
			unreached = append(unreached, fmt.Sprintf("%s %s (%s)", s.Pos, s.Kind, s.Func))
		}
	}
	sort.Strings(unreached)
	classSizes := map[string]int{}
	for _, s := range order {
		classSizes[s] = classes[s].n
	}
	ctx.Extra("entry_points", len(entries))
	ctx.Extra("shape_classes", len(order))
	ctx.Extra("class_sizes", classSizes)
	ctx.Extra("trace_events_total", events)
	ctx.Extra("max_events_per_trace", maxEvents)
	ctx.Extra("instrumented_sites", map[string]any{"total": len(sites), "reached_in_compared_traces": reached, "unreached": unreached})
	ctx.Extra("build_tags", os.Getenv("VERIF_CT_TAGS"))
	if pg := os.Getenv("VERIF_CT_PUREGO"); pg != "" {
		ctx.Extra("purego_build_run", pg)
	}
	for i := 0; i < 3 && i < len(order); i++ {
		ctx.Sample(map[string]any{"shape_class": order[i*len(order)/3], "first_input": classes[order[i*len(order)/3]].first, "executions": classes[order[i*len(order)/3]].n})
	}
	if len(sites) == 0 {
		core.InternalError("C03: no instrumentation site table (run through ./check)")
	}
	if maxEvents < 1000 {
		ctx.Vacuous("C03: traces are implausibly short (max %d events): instrumentation inactive?", maxEvents)
	}
}
