package checks

import (
	"bytes"
	"math/big"

	"filippo.io/edwards25519"
	"verif/harness/alpha"
	"verif/harness/core"
	"verif/harness/ref"
)

// C08 - scalar encodings: canonical output, exact accept set, wide reduction, clamping.

type bytesCase struct {
	Fn string `json:"fn"`
	In Hex    `json:"in"`
}

// withSlack returns a copy of b inside a larger backing array so that writes
// beyond len (up to cap) are observable; guard bytes are 0xA5.
func withSlack(b []byte) (s []byte, full []byte) {
	full = make([]byte, len(b)+96) // spare capacity larger than any setter's internal buffer
	for i := range full {
		full[i] = 0xA5
	}
	copy(full, b)
	return full[:len(b):len(full)], full
}

func slackIntact(full []byte, orig []byte) bool {
	if !bytes.Equal(full[:len(orig)], orig) {
		return false
	}
	for _, v := range full[len(orig):] {
		if v != 0xA5 {
			return false
		}
	}
	return true
}

var subC08 = core.NewSub("C08/setters", func(w *core.Worker, c bytesCase) *core.Fail {
	in, full := withSlack(c.In)
	var prior edwards25519.Scalar
	prior.Set(mkScalar(alpha.GenericScalar))
	priorBytes := prior.Bytes()
	s := prior
	var ret *edwards25519.Scalar
	var err error
	var wantOK bool
	var want *big.Int
	switch c.Fn {
	case "SetCanonicalBytes":
		ret, err = s.SetCanonicalBytes(in)
		wantOK = len(c.In) == 32 && ref.FromLE(c.In).Cmp(ref.L) < 0
		if wantOK {
			want = ref.FromLE(c.In)
		}
	case "SetUniformBytes":
		ret, err = s.SetUniformBytes(in)
		wantOK = len(c.In) == 64
		if wantOK {
			want = ref.SRed(ref.FromLE(c.In))
		}
	case "SetBytesWithClamping":
		ret, err = s.SetBytesWithClamping(in)
		wantOK = len(c.In) == 32
		if wantOK {
			want = ref.SRed(ref.Clamp(c.In))
		}
	default:
		panic("bad fn")
	}
	_ = full // inputs staying untouched is C11/C14's business
	if wantOK {
		w.Distinct("accept", []byte{1})
		if err != nil || ret != &s {
			return core.Failf("%s rejected valid input %x (err=%v, ret==recv:%v)", c.Fn, []byte(c.In), err, ret == &s)
		}
		out := s.Bytes()
		exp := ref.LE32(want)
		if !bytes.Equal(out, exp[:]) {
			return core.Failf("%s(%x).Bytes()=%x want %x", c.Fn, []byte(c.In), out, exp[:])
		}
		w.Distinct("nontrivial:values", out)
		// Bytes is canonical and round-trips
		if ref.FromLE(out).Cmp(ref.L) >= 0 || len(out) != 32 {
			return core.Failf("Bytes() not canonical: %x", out)
		}
		r2, err2 := new(edwards25519.Scalar).SetCanonicalBytes(out)
		if err2 != nil || r2.Equal(&s) != 1 {
			return core.Failf("SetCanonicalBytes(Bytes(s)) failed or unequal for %x", out)
		}
		// "always": also after a caller wrote into a slice Bytes() returned earlier
		for i := range out[:cap(out)] {
			out[:cap(out)][i] = 0xff
		}
		if again := s.Bytes(); !bytes.Equal(again, exp[:]) {
			return core.Failf("Bytes() returns %x (want %x) after the slice returned by an earlier Bytes() call was overwritten", again, exp[:])
		}
		if z := new(edwards25519.Scalar).Subtract(&s, &s).Bytes(); !bytes.Equal(z, make([]byte, 32)) {
			return core.Failf("Bytes() of s-s = %x after an earlier result was overwritten", z)
		}
		return nil
	}
	w.Distinct("accept", []byte{0})
	if err == nil || ret != nil {
		return core.Failf("%s accepted invalid input %x (len %d)", c.Fn, []byte(c.In), len(c.In))
	}
	_ = priorBytes // atomicity of failed setters is C14's business
	return nil
})

func oneByteBall(base []byte) [][]byte {
	var out [][]byte
	for pos := range base {
		for v := 0; v < 256; v++ {
			b := append([]byte{}, base...)
			b[pos] = byte(v)
			out = append(out, b)
		}
	}
	return out
}

func twoByteBall(base []byte) [][]byte {
	var out [][]byte
	vals := func(b byte) []byte { return []byte{0, b - 1, b, b + 1, 0xff} }
	for i := 0; i < len(base); i++ {
		for j := i + 1; j < len(base); j++ {
			for _, vi := range vals(base[i]) {
				for _, vj := range vals(base[j]) {
					b := append([]byte{}, base...)
					b[i], b[j] = vi, vj
					out = append(out, b)
				}
			}
		}
	}
	return out
}

func lengthCases(right int) [][]byte {
	var out [][]byte
	for n := 0; n <= 130; n++ {
		for _, fill := range []byte{0x00, 0xff, 0x01} {
			b := bytes.Repeat([]byte{fill}, n)
			if fill == 0x01 && n > 0 {
				// valid-looking prefix: small value
				b = make([]byte, n)
				b[0] = 1
			}
			out = append(out, b)
		}
	}
	_ = right
	return out
}

// A rejected call must not influence the next accepted one (scratch buffers
// reused across calls): every setter is called on a rejected input and then
// on a valid one, in one case.
type seqBytesCase struct {
	Fn   string `json:"fn"`
	Bad  Hex    `json:"rejected_first"`
	Good Hex    `json:"then"`
}

var subC08Seq = core.NewSub("C08/rejected-then-valid", func(w *core.Worker, c seqBytesCase) *core.Fail {
	var s edwards25519.Scalar
	call := func(in []byte) (*edwards25519.Scalar, error) {
		switch c.Fn {
		case "SetCanonicalBytes":
			return s.SetCanonicalBytes(in)
		case "SetUniformBytes":
			return s.SetUniformBytes(in)
		default:
			return s.SetBytesWithClamping(in)
		}
	}
	if _, err := call(append([]byte{}, c.Bad...)); err == nil {
		return nil // the first input happens to be valid for this setter: nothing to test
	}
	if _, err := call(append([]byte{}, c.Good...)); err != nil {
		return core.Failf("%s rejected a valid input after a rejected call: %v", c.Fn, err)
	}
	var want *big.Int
	switch c.Fn {
	case "SetCanonicalBytes":
		want = ref.FromLE(c.Good)
	case "SetUniformBytes":
		want = ref.SRed(ref.FromLE(c.Good))
	default:
		want = ref.SRed(ref.Clamp(c.Good))
	}
	exp := ref.LE32(want)
	if !bytes.Equal(s.Bytes(), exp[:]) {
		return core.Failf("%s(%x) after a rejected call on %d bytes gives %x want %x", c.Fn, []byte(c.Good), len(c.Bad), s.Bytes(), exp[:])
	}
	w.Distinct("nontrivial:values", s.Bytes())
	return nil
})

func init() { register("C08", "exploration", runC08) }

func runC08(ctx *core.Ctx) {
	ctx.Rule("SetCanonicalBytes: complete one-byte deviation balls (32x256) and two-byte balls ({00,b-1,b,b+1,ff} at all position pairs) around l-1, l, l+1, 0, 2^252, 2^256-1 and l with single bytes zeroed; SetUniformBytes: one-byte balls (64x256) around 8 structured 64-byte bases; SetBytesWithClamping: bytes 0 and 31 jointly over all 65536 values x fillings, one-byte balls; all lengths 0..130 for all three; thorough tier: complete two-byte balls (all position pairs x 65536 values) around l-1 (canonical, clamping) and ff^64 (wide). distinct_nontrivial = distinct decoded scalar values")
	ctx.Assume("math/big is correct", "inputs outside the enumerated balls are not decided")
	l := ref.L
	le := func(v *big.Int) []byte { b := ref.LE32(v); return b[:] }
	var cases []bytesCase
	add := func(fn string, ins [][]byte) {
		for _, in := range ins {
			cases = append(cases, bytesCase{fn, Hex(in)})
		}
	}
	canonBases := [][]byte{
		le(new(big.Int).Sub(l, big.NewInt(1))), le(l), le(new(big.Int).Add(l, big.NewInt(1))),
		le(big.NewInt(0)), le(new(big.Int).Lsh(big.NewInt(1), 252)), bytes.Repeat([]byte{0xff}, 32),
		le(new(big.Int).Sub(new(big.Int).Lsh(big.NewInt(1), 252), big.NewInt(1))),
	}
	if !smoke(ctx) {
		lb := le(l)
		for i := 0; i < 32; i++ {
			b := append([]byte{}, lb...)
			b[i] = 0
			canonBases = append(canonBases, b)
		}
	}
	for _, b := range canonBases {
		add("SetCanonicalBytes", oneByteBall(b))
	}
	add("SetCanonicalBytes", twoByteBall(canonBases[0]))
	add("SetCanonicalBytes", twoByteBall(canonBases[1]))
	add("SetCanonicalBytes", lengthCases(32))
	// alphabet S and S+l (non-canonical twins)
	for _, v := range alpha.Scalars(smoke(ctx)) {
		add("SetCanonicalBytes", [][]byte{le(v)})
		if t := new(big.Int).Add(v, l); t.BitLen() <= 256 {
			add("SetCanonicalBytes", [][]byte{le(t)})
		}
	}

	// wide
	cat := func(a, b []byte) []byte { return append(append([]byte{}, a...), b...) }
	z32 := make([]byte, 32)
	wideBases := [][]byte{
		make([]byte, 64), bytes.Repeat([]byte{0xff}, 64), cat(le(l), z32), cat(z32, le(l)),
		cat(bytes.Repeat([]byte{0xff}, 21), make([]byte, 43)),
		cat(cat(make([]byte, 21), bytes.Repeat([]byte{0xff}, 21)), make([]byte, 22)),
		cat(make([]byte, 42), bytes.Repeat([]byte{0xff}, 22)),
		cat(le(new(big.Int).Sub(l, big.NewInt(1))), le(new(big.Int).Sub(l, big.NewInt(1)))),
	}
	nw := len(wideBases)
	if smoke(ctx) {
		nw = 5
	}
	for _, b := range wideBases[:nw] {
		add("SetUniformBytes", oneByteBall(b))
	}
	add("SetUniformBytes", lengthCases(64))
	for _, v := range alpha.Scalars(true) {
		add("SetUniformBytes", [][]byte{cat(le(v), z32), cat(z32, le(v)), cat(le(v), le(v))})
	}

	// clamping: bytes 0 and 31 jointly
	fills := []byte{0x00, 0xff, 0x5a}
	if smoke(ctx) {
		fills = fills[:2]
	}
	for _, f := range fills {
		for b0 := 0; b0 < 256; b0++ {
			for b31 := 0; b31 < 256; b31++ {
				b := bytes.Repeat([]byte{f}, 32)
				b[0], b[31] = byte(b0), byte(b31)
				cases = append(cases, bytesCase{"SetBytesWithClamping", Hex(b)})
			}
		}
	}
	for _, b := range [][]byte{le(new(big.Int).Sub(l, big.NewInt(1))), le(alpha.GenericScalar), bytes.Repeat([]byte{0xff}, 32), z32} {
		add("SetBytesWithClamping", oneByteBall(b))
	}
	add("SetBytesWithClamping", lengthCases(32))
	subC08.RunList(ctx, cases)
	if !ctx.Quick() {
		// thorough: COMPLETE two-byte balls (every position pair x all 65536
		// value pairs): around l-1 for the canonical decision (496 pairs), around
		// the all-ff wide string (2016 pairs) and around l-1 for clamping
		full2 := func(fn string, base []byte) {
			n := len(base)
			var pairs [][2]int
			for i := 0; i < n; i++ {
				for j := i + 1; j < n; j++ {
					pairs = append(pairs, [2]int{i, j})
				}
			}
			subC08.Run(ctx, len(pairs)*65536, func(k int) bytesCase {
				p := pairs[k/65536]
				b := append([]byte{}, base...)
				b[p[0]], b[p[1]] = byte(k), byte(k>>8)
				return bytesCase{fn, Hex(b)}
			})
		}
		full2("SetCanonicalBytes", canonBases[0])
		full2("SetUniformBytes", bytes.Repeat([]byte{0xff}, 64))
		full2("SetBytesWithClamping", canonBases[0])
		ctx.Extra("complete_two_byte_balls", []string{"SetCanonicalBytes around l-1", "SetUniformBytes around ff^64", "SetBytesWithClamping around l-1"})
	}
	var sq []seqBytesCase
	g := le(alpha.GenericScalar)
	for _, fn := range []string{"SetCanonicalBytes", "SetUniformBytes", "SetBytesWithClamping"} {
		good := g
		if fn == "SetUniformBytes" {
			good = cat(g, g)
		}
		for _, n := range []int{0, 1, 31, 33, 63, 64, 65, 96, 97, 128, 130} {
			for _, fill := range []byte{0xff, 0xd7, 0x00} {
				sq = append(sq, seqBytesCase{fn, Hex(bytes.Repeat([]byte{fill}, n)), Hex(good)})
			}
		}
		sq = append(sq, seqBytesCase{fn, Hex(bytes.Repeat([]byte{0xff}, 32)), Hex(good)})
	}
	subC08Seq.RunList(ctx, sq)
	if ctx.DistinctCount("accept") != 2 {
		ctx.Vacuous("C08: vacuous accept/reject coverage")
	}
}
