package core

import (
	"crypto/sha256"
	"encoding/hex"
	"encoding/json"
	"fmt"
	"os"
	"runtime"
	"sync"
)

// Hex is a byte string that marshals as hex.
type Hex []byte

func (h Hex) MarshalJSON() ([]byte, error) { return json.Marshal(hex.EncodeToString(h)) }
func (h *Hex) UnmarshalJSON(b []byte) error {
	var s string
	if err := json.Unmarshal(b, &s); err != nil {
		return err
	}
	d, err := hex.DecodeString(s)
	if err != nil {
		return err
	}
	*h = d
	return nil
}
func (h Hex) String() string { return hex.EncodeToString(h) }

// Machine is an explicit-state breadth-first explorer of a register machine
// whose transitions execute the real implementation. S holds the concrete
// register contents plus the shadow reference-model values.
type Machine[S any] struct {
	Name string // sub name "<PROP>/<what>"
	// Inits returns the initial states for a tier (must be deterministic).
	Inits func(tier string) []S
	// Ops returns the operation names for a tier (deterministic order).
	Ops func(tier string) []string
	// Apply executes op on s in place (implementation and shadow model) and
	// checks every invariant of the successor. enabled=false: no successor.
	Apply func(s *S, op string) (enabled bool, fail *Fail)
	// Key is the exact concrete state (no abstraction).
	Key func(s *S) []byte
	// Clone must deep-copy whatever Apply mutates.
	Clone func(s *S) S
}

// History is the replayable form of a path.
type History struct {
	Tier string   `json:"tier"`
	Init int      `json:"init"`
	Ops  []string `json:"ops"`
}

type node[S any] struct {
	s    S
	init int
	path []string
}

// Register makes histories of this machine replayable.
func (m *Machine[S]) Register() *Machine[S] {
	RegisterReplayer(m.Name, func(raw json.RawMessage) *Fail {
		var h History
		if err := json.Unmarshal(raw, &h); err != nil {
			InternalError("replay %s: %v", m.Name, err)
		}
		inits := m.Inits(h.Tier)
		if h.Init >= len(inits) {
			InternalError("replay %s: init index out of range", m.Name)
		}
		s := m.Clone(&inits[h.Init])
		for i, op := range h.Ops {
			en, f := m.safeApply(&s, op)
			if f != nil {
				return Failf("step %d (%s): %s", i, op, f.Msg)
			}
			if !en {
				return nil
			}
		}
		return nil
	})
	return m
}

func (m *Machine[S]) safeApply(s *S, op string) (en bool, f *Fail) {
	defer func() {
		if r := recover(); r != nil {
			en, f = false, PanicToFail(r)
		}
	}()
	return m.Apply(s, op)
}

type succ[S any] struct {
	ok   bool
	s    S
	key  [16]byte
	fail *Fail
}

// BFS explores to the given depth (number of operations) from every initial
// state, de-duplicating on the exact state key. Deterministic: successors are
// merged in (state, op) order.
func (m *Machine[S]) BFS(ctx *Ctx, depth int, maxStates int) {
	inits := m.Inits(ctx.Tier)
	ops := m.Ops(ctx.Tier)
	seen := map[[16]byte]struct{}{}
	var frontier []node[S]
	k16 := func(s *S) [16]byte {
		h := sha256.Sum256(m.Key(s))
		var k [16]byte
		copy(k[:], h[:16])
		return k
	}
	for i := range inits {
		s := m.Clone(&inits[i])
		k := k16(&s)
		if _, dup := seen[k]; dup {
			continue
		}
		seen[k] = struct{}{}
		frontier = append(frontier, node[S]{s: s, init: i})
	}
	var transitions, disabled int64
	completedDepth := 0
	workers := runtime.GOMAXPROCS(0)
	if os.Getenv("VERIF_SEQUENTIAL") != "" {
		workers = 1
	}
	const block = 256
	stopped := false
	for d := 1; d <= depth && !stopped; d++ {
		var next []node[S]
		for lo := 0; lo < len(frontier) && !stopped; lo += block {
			hi := lo + block
			if hi > len(frontier) {
				hi = len(frontier)
			}
			res := make([]succ[S], (hi-lo)*len(ops))
			var wg sync.WaitGroup
			jobs := make(chan int, hi-lo)
			for i := lo; i < hi; i++ {
				jobs <- i
			}
			close(jobs)
			for w := 0; w < workers; w++ {
				wg.Add(1)
				go func() {
					defer wg.Done()
					for i := range jobs {
						for oi, op := range ops {
							s := m.Clone(&frontier[i].s)
							en, f := m.safeApply(&s, op)
							r := &res[(i-lo)*len(ops)+oi]
							r.fail = f
							if en && f == nil {
								r.ok = true
								r.s = s
								r.key = k16(&s)
							}
						}
					}
				}()
			}
			wg.Wait()
			for i := lo; i < hi; i++ {
				for oi, op := range ops {
					r := &res[(i-lo)*len(ops)+oi]
					if r.fail != nil {
						transitions++
						h := History{Tier: ctx.Tier, Init: frontier[i].init, Ops: append(append([]string{}, frontier[i].path...), op)}
						ctx.ReportViolation(m.Name, int(transitions), h, r.fail.Msg)
						continue
					}
					if !r.ok {
						disabled++
						continue
					}
					transitions++
					if _, dup := seen[r.key]; dup {
						continue
					}
					seen[r.key] = struct{}{}
					if d < depth {
						next = append(next, node[S]{s: r.s, init: frontier[i].init, path: append(append([]string{}, frontier[i].path...), op)})
					}
					if transitions%1000 == 1 {
						ctx.Sample(map[string]any{"machine": m.Name, "init": frontier[i].init, "ops": append(append([]string{}, frontier[i].path...), op)})
					}
				}
			}
			if len(seen) > maxStates || ctx.Expired() {
				stopped = true
				ctx.NotExhaustive(fmt.Sprintf("%s: stopped inside depth %d (states=%d, cap=%d or deadline)", m.Name, d, len(seen), maxStates))
			}
		}
		if !stopped {
			completedDepth = d
		}
		frontier = next
	}
	ctx.AddStates(int64(len(seen)))
	ctx.AddTransitions(transitions)
	ctx.AddTraces(transitions)
	ctx.AddEvals(transitions)
	ctx.SubDone(m.Name, transitions, !stopped)
	ctx.Extra("opseq:"+m.Name, map[string]any{"initial_states": len(inits), "ops_per_state": len(ops), "depth_completed": completedDepth,
		"depth_requested": depth, "states": len(seen), "transitions": transitions, "disabled_transitions": disabled})
}
