// Package hmain is the command-line front end shared by the check binaries
// (vcheck: plain build; schedcheck: scheduling build; ctcheck: leakage build).
package hmain

import (
	"encoding/json"
	"flag"
	"fmt"
	"os"
	"strconv"
	"time"

	"verif/harness/alpha"
	"verif/harness/checks"
	"verif/harness/core"
	"verif/harness/ref"
)

func Main() {
	prop := flag.String("prop", "", "property id")
	tier := flag.String("tier", "quick", "quick|thorough")
	verif := flag.String("verif", "/verif", "verif directory (evidence, replays, known findings)")
	out := flag.String("out", "", "directory for evidence/ and replays/ (default: the verif directory)")
	digest := flag.String("digest", "", "write the observation digest of the run to this file")
	reportAs := flag.String("report-as", "", "report violations under this property id")
	buildTags := flag.String("build-tags", "", "build tags this binary was built with (recorded in replay files)")
	noEvidence := flag.Bool("no-evidence", false, "do not write an evidence file")
	replay := flag.String("replay", "", "replay file")
	deadline := flag.Duration("deadline", 0, "internal deadline (0 = none)")
	flag.Parse()
	registerPanicReplayers()
	if err := ref.SelfTest(); err != nil {
		core.InternalError("reference model self-test failed: %v", err)
	}
	if !alpha.ElemLayoutOK {
		core.InternalError("field.Element no longer has uint64 limb fields l0..l4: limb injection is impossible on this tree")
	}
	checks.VerifDir = *verif
	if *out == "" {
		*out = *verif
	}
	core.OutDir = *out
	if *replay != "" {
		core.Replay(*replay)
	}
	if *prop == "selftest" {
		fmt.Println("selftest ok; subs:", len(core.Subs()))
		return
	}
	c, ok := checks.Registry[*prop]
	if !ok {
		core.InternalError("unknown property %q", *prop)
	}
	seed, _ := strconv.ParseInt(os.Getenv("VERIF_SEED"), 10, 64)
	ctx := core.NewCtx(*prop, *tier, seed, c.Level)
	if *deadline > 0 {
		ctx.Deadline = time.Now().Add(*deadline)
	}
	ctx.InitShard()
	ctx.DigestFile, ctx.ReportAs, ctx.BuildTags, ctx.NoEvidence = *digest, *reportAs, *buildTags, *noEvidence
	runGuarded(ctx, *prop, c.Run)
	ctx.Finish(*verif)
}

// runGuarded converts a library panic during the construction of a check's
// alphabets (outside any single case) into a violation of that property; a
// panic raised by harness code is a machinery error (exit 2).
func runGuarded(ctx *core.Ctx, prop string, run func(*core.Ctx)) {
	defer func() {
		if r := recover(); r != nil {
			f := core.PanicToFail(r)
			ctx.ReportViolation(prop+"/library-panic", 0, map[string]string{"prop": prop, "tier": ctx.Tier}, f.Msg)
		}
	}()
	run(ctx)
}

func registerPanicReplayers() {
	for id := range checks.Registry {
		id := id
		core.RegisterReplayer(id+"/library-panic", func(json.RawMessage) (f *core.Fail) {
			defer func() {
				if r := recover(); r != nil {
					f = core.PanicToFail(r)
				}
			}()
			scratch := core.NewCtx(id, "quick", 0, checks.Registry[id].Level)
			scratch.Deadline = time.Now().Add(2 * time.Minute)
			checks.Registry[id].Run(scratch)
			return nil
		})
	}
}
