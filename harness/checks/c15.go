package checks

import (
	"fmt"
	"math/big"
	"reflect"
	"sort"

	"filippo.io/edwards25519"
	"filippo.io/edwards25519/field"
	"verif/harness/alpha"
	"verif/harness/core"
	"verif/harness/ref"
)

// C15 - misuse is loud: uninitialised Points and mismatched lengths panic.

// knownMethods is the harness's operation table; exported methods found by
// reflection that are not listed are reported as uncovered.
var knownMethods = map[string][]string{
	"Point": {"Add", "Subtract", "Negate", "MultByCofactor", "Equal", "Bytes", "BytesMontgomery", "ExtendedCoordinates",
		"ScalarMult", "ScalarBaseMult", "VarTimeDoubleScalarBaseMult", "MultiScalarMult", "VarTimeMultiScalarMult",
		"Set", "SetBytes", "SetExtendedCoordinates"},
	"Scalar": {"Add", "Subtract", "Multiply", "MultiplyAdd", "Negate", "Invert", "Set", "Equal", "Bytes",
		"SetCanonicalBytes", "SetUniformBytes", "SetBytesWithClamping"},
	"Element": {"Add", "Subtract", "Multiply", "Negate", "Square", "Invert", "Pow22523", "Absolute", "Mult32", "Set",
		"Select", "Swap", "SqrtRatio", "Equal", "Bytes", "IsNegative", "SetBytes", "SetWideBytes", "Zero", "One"},
}

func uncoveredMethods() []string {
	var out []string
	for name, t := range map[string]reflect.Type{
		"Point": reflect.TypeOf(&edwards25519.Point{}), "Scalar": reflect.TypeOf(&edwards25519.Scalar{}), "Element": reflect.TypeOf(&field.Element{})} {
		known := map[string]bool{}
		for _, m := range knownMethods[name] {
			known[m] = true
		}
		for i := 0; i < t.NumMethod(); i++ {
			if !known[t.Method(i).Name] {
				out = append(out, name+"."+t.Method(i).Name)
			}
		}
		for m := range known {
			if _, ok := t.MethodByName(m); !ok {
				out = append(out, name+"."+m+" (listed but missing)")
			}
		}
	}
	sort.Strings(out)
	return out
}

func noteUncovered(ctx *core.Ctx) {
	if u := uncoveredMethods(); len(u) > 0 {
		ctx.Extra("uncovered_methods", u)
		ctx.NotExhaustive(fmt.Sprintf("exported methods not in the harness's operation table: %v", u))
	} else {
		ctx.Extra("uncovered_methods", []string{})
	}
}

type misuseCase struct {
	Op       string `json:"op"`
	N        int    `json:"n"`                       // term count for multi-scalar ops
	ZeroPos  int    `json:"zero_pos"`                // index of the zero-valued input position; -1: none (receiver-only zero)
	ZeroKind int    `json:"zero_kind"`               // 0 new(Point), 1 &Point{}, 2 var, 3 after failed SetBytes, 4 after failed SetExtendedCoordinates
	Vals     [4]int `json:"vals"`                    // alphabet indices for the other positions (point x representation)
	Sc       [4]int `json:"sc,omitempty"`            // scalar alphabet indices per scalar position (0 = default pattern)
	NS       int    `json:"ns"`                      // scalar slice length (multi-scalar); -1 = same as N
	ZeroSc   bool   `json:"zero_scalar,omitempty"`   // the scalar paired with the zero-valued point is 0
	SamePtr  bool   `json:"same_ptr,omitempty"`      // every Point input position holds the SAME zero-valued pointer
	RecvIsIn bool   `json:"recv_is_input,omitempty"` // the receiver is the zero-valued input itself (same pointer)
}

func zeroPoint(kind int) *edwards25519.Point {
	switch kind {
	case 0:
		return new(edwards25519.Point)
	case 1:
		return &edwards25519.Point{}
	case 2:
		var p edwards25519.Point
		return &p
	case 3:
		p := new(edwards25519.Point)
		if _, err := p.SetBytes(make([]byte, 31)); err == nil {
			panic("harness: SetBytes accepted 31 bytes")
		}
		return p
	default:
		p := new(edwards25519.Point)
		two := new(field.Element).Add(new(field.Element).One(), new(field.Element).One())
		if _, err := p.SetExtendedCoordinates(two, two, two, two); err == nil {
			panic("harness: SetExtendedCoordinates accepted (2,2,2,2)")
		}
		return p
	}
}

// misuseAlphabet: the values of the "other" argument positions. The guard
// reads raw coordinates, so the alphabet holds every point with a zero
// coordinate (all of E[8]: x = 0 for the identity and (0,-1), y = 0 for the
// two points of order 4), the generator and a generic mixed point.
func misuseAlphabet() []ref.Pt {
	T := ref.Torsion()
	al := []ref.Pt{ref.Identity(), ref.Base(), T[4], ref.Add(T[1], ref.Mul(alpha.GenericScalar, ref.Base()))}
	return append(al, T[1], T[2], T[3], T[5], T[6], T[7])
}

// misuseVals is the size of the (point, representation) alphabet: entry v is
// point v%10 in its canonical Z=1 limbs (v < 10) or in a projective
// representation that depends on the position (v >= 10).
const misusePts = 10
const misuseVals = 2 * misusePts

func misusePoint(v, pos int) *edwards25519.Point {
	al := misuseAlphabet()
	if v < misusePts {
		return alpha.MakePoint(al[v], 0)
	}
	return alpha.MakePoint(al[v-misusePts], []int{7, 6, 3, 5}[pos%4])
}

// misuseScalars: 0 is "default pattern"; the others fix the scalar value.
func misuseScalar(idx int, def *edwards25519.Scalar) *edwards25519.Scalar {
	switch idx {
	case 1:
		return edwards25519.NewScalar()
	case 2:
		return mkScalar(big.NewInt(1))
	case 3:
		return mkScalar(new(big.Int).Sub(ref.L, big.NewInt(1)))
	}
	return def
}

// inputPositions: number of Point-typed input positions of op (receiver
// counted when it is read).
func misuseInputs(op string, n int) int {
	switch op {
	case "Add", "Subtract", "Equal":
		return 2
	case "Negate", "MultByCofactor", "Bytes", "BytesMontgomery", "ExtendedCoordinates", "ScalarMult", "VarTimeDoubleScalarBaseMult":
		return 1
	case "MultiScalarMult", "VarTimeMultiScalarMult":
		return n
	}
	panic("bad op")
}

func runMisuse(c misuseCase) (panicked bool, msg string, recv *edwards25519.Point) {
	nin := misuseInputs(c.Op, c.N)
	in := make([]*edwards25519.Point, nin)
	for i := range in {
		if i == c.ZeroPos {
			in[i] = zeroPoint(c.ZeroKind)
		} else {
			in[i] = misusePoint(c.Vals[i%4], i)
		}
	}
	if c.SamePtr {
		z := zeroPoint(c.ZeroKind)
		for i := range in {
			in[i] = z
		}
	}
	recv = zeroPoint(c.ZeroKind) // pure receivers are always zero-valued here
	if c.RecvIsIn && c.ZeroPos >= 0 && c.ZeroPos < len(in) {
		recv = in[c.ZeroPos]
	}
	k1, k2 := mkScalar(alpha.GenericScalar), mkScalar(big.NewInt(8))
	if c.ZeroSc {
		k1 = edwards25519.NewScalar()
	}
	defer func() {
		if r := recover(); r != nil {
			panicked = true
			msg = fmt.Sprint(r)
		}
	}()
	switch c.Op {
	case "Add":
		recv.Add(in[0], in[1])
	case "Subtract":
		recv.Subtract(in[0], in[1])
	case "Equal":
		in[0].Equal(in[1])
		recv = nil
	case "Negate":
		recv.Negate(in[0])
	case "MultByCofactor":
		recv.MultByCofactor(in[0])
	case "Bytes":
		in[0].Bytes()
		recv = nil
	case "BytesMontgomery":
		in[0].BytesMontgomery()
		recv = nil
	case "ExtendedCoordinates":
		in[0].ExtendedCoordinates()
		recv = nil
	case "ScalarMult":
		recv.ScalarMult(k1, in[0])
	case "VarTimeDoubleScalarBaseMult":
		recv.VarTimeDoubleScalarBaseMult(k1, in[0], k2)
	case "MultiScalarMult", "VarTimeMultiScalarMult":
		ns := c.NS
		if ns < 0 {
			ns = c.N
		}
		sc := make([]*edwards25519.Scalar, ns)
		for i := range sc {
			sc[i] = []*edwards25519.Scalar{k1, k2, k1}[i%3]
			if c.ZeroSc && i == c.ZeroPos {
				sc[i] = edwards25519.NewScalar()
			} else if c.ZeroSc {
				sc[i] = k2
			}
			sc[i] = misuseScalar(c.Sc[i%4], sc[i])
		}
		if c.Op == "MultiScalarMult" {
			recv.MultiScalarMult(sc, in)
		} else {
			recv.VarTimeMultiScalarMult(sc, in)
		}
	}
	return
}

var subC15 = core.NewSub("C15/misuse", func(w *core.Worker, c misuseCase) *core.Fail {
	panicked, msg, recv := runMisuse(c)
	ns := c.NS
	if ns < 0 {
		ns = c.N
	}
	multi := c.Op == "MultiScalarMult" || c.Op == "VarTimeMultiScalarMult"
	wantPanic := c.ZeroPos >= 0 || (multi && ns != c.N) || (c.SamePtr && misuseInputs(c.Op, c.N) > 0)
	w.Distinct("outcome", []byte{b2b(panicked)})
	w.Distinct("nontrivial:cells", []byte(fmt.Sprint(c.Op, c.N, c.ZeroPos, ns, panicked, c.ZeroSc, c.SamePtr, c.RecvIsIn)))
	if wantPanic && !panicked {
		if c.ZeroPos >= 0 {
			return core.Failf("%s (n=%d) did not panic with a zero-value Point (kind %d) at input position %d", c.Op, c.N, c.ZeroKind, c.ZeroPos)
		}
		return core.Failf("%s did not panic with %d scalars and %d points", c.Op, ns, c.N)
	}
	if !wantPanic && panicked {
		return core.Failf("%s (n=%d) panicked with valid inputs and a zero-value receiver: %s", c.Op, c.N, msg)
	}
	if !wantPanic && recv != nil {
		// the zero-value receiver must now be a usable point
		ok := func() (ok bool) {
			defer func() {
				if recover() != nil {
					ok = false
				}
			}()
			return len(recv.Bytes()) == 32
		}()
		if !ok {
			return core.Failf("%s (n=%d): result in a zero-value receiver is not an initialised point", c.Op, c.N)
		}
	}
	return nil
})

func b2b(b bool) byte {
	if b {
		return 1
	}
	return 0
}

func init() { register("C15", "model_checking", runC15) }

func runC15(ctx *core.Ctx) {
	ctx.Rule("the programs quantifier is finite and enumerated completely: every exported Point operation (table cross-checked against reflection) x every Point-typed input position (receiver when read; every index of the points slice for n in 1..3) x 5 ways of producing a zero value x every assignment of the other-argument alphabet to the other positions (10 points: all of E[8] - every point with a zero coordinate - plus the generator and a mixed point, each in canonical Z=1 limbs and in a projective representation; the canonical half when three other positions vary, in the quick tier) -> must panic; the same calls with all inputs valid and only the receiver zero-valued -> must not panic and must leave an initialised point; multi-scalar calls with (len scalars, len points) in {0..4}^2 x every assignment of {generic, 0, 1, l-1} to the scalar positions -> panic iff the lengths differ. states = (operation, zero position, term count) cells, transitions = calls executed. distinct_nontrivial = distinct (op, n, position, outcome) cells")
	ctx.Assume("a panic is observed with recover() in the caller")
	noteUncovered(ctx)
	var cases []misuseCase
	type opn struct {
		op string
		n  int
	}
	var ops []opn
	for _, op := range []string{"Add", "Subtract", "Equal", "Negate", "MultByCofactor", "Bytes", "BytesMontgomery", "ExtendedCoordinates", "ScalarMult", "VarTimeDoubleScalarBaseMult"} {
		ops = append(ops, opn{op, 0})
	}
	for _, op := range []string{"MultiScalarMult", "VarTimeMultiScalarMult"} {
		for n := 0; n <= 3; n++ {
			ops = append(ops, opn{op, n})
		}
	}
	cells := 0
	for _, o := range ops {
		nin := misuseInputs(o.op, o.n)
		for zp := -1; zp < nin; zp++ {
			cells++
			for zk := 0; zk < 5; zk++ {
				// all assignments of the alphabet to the other positions
				var others []int
				for i := 0; i < nin && i < 4; i++ {
					if i != zp {
						others = append(others, i)
					}
				}
				// full alphabet (point x representation) for up to two other
				// positions, the canonical half for three
				size := misuseVals
				if len(others) >= 3 && ctx.Quick() {
					size = misusePts
				}
				tuples := 1
				for range others {
					tuples *= size
				}
				for t := 0; t < tuples; t++ {
					var vals [4]int
					r := t
					for _, i := range others {
						vals[i] = r % size
						r /= size
					}
					cases = append(cases, misuseCase{Op: o.op, N: o.n, ZeroPos: zp, ZeroKind: zk, Vals: vals, NS: -1})
				}
			}
		}
	}
	// the scalar paired with the zero-valued point is itself zero (a term that
	// "contributes nothing" must still be checked), and the same zero-valued
	// pointer in every input position
	for _, o := range ops {
		nin := misuseInputs(o.op, o.n)
		if nin == 0 {
			continue
		}
		for zk := 0; zk < 5; zk++ {
			cells++
			cases = append(cases, misuseCase{Op: o.op, N: o.n, ZeroPos: 0, ZeroKind: zk, SamePtr: true, NS: -1})
			cases = append(cases, misuseCase{Op: o.op, N: o.n, ZeroPos: 0, ZeroKind: zk, SamePtr: true, ZeroSc: true, NS: -1})
			for zp := 0; zp < nin; zp++ {
				// the zero-valued input is also the receiver (a reset of the
				// receiver before the guard would hide it)
				cases = append(cases, misuseCase{Op: o.op, N: o.n, ZeroPos: zp, ZeroKind: zk, RecvIsIn: true, Vals: [4]int{1, 2, 3, 0}, NS: -1})
				for t := 0; t < 4; t++ {
					cases = append(cases, misuseCase{Op: o.op, N: o.n, ZeroPos: zp, ZeroKind: zk, ZeroSc: true, Vals: [4]int{t, (t + 1) % 4, (t + 2) % 4, (t + 3) % 4}, NS: -1})
				}
			}
		}
	}
	// length mismatches: (len scalars, len points) in {0..4}^2, every
	// assignment of the scalar alphabet {generic/8 pattern, 0, 1, l-1} to the
	// scalar positions (a surplus scalar that "contributes nothing" is still a
	// mismatch), 4 point assignments
	for _, op := range []string{"MultiScalarMult", "VarTimeMultiScalarMult"} {
		for n := 0; n <= 4; n++ {
			for ns := 0; ns <= 4; ns++ {
				cells++
				scTuples := 1
				for i := 0; i < ns; i++ {
					scTuples *= 4
				}
				for st := 0; st < scTuples; st++ {
					var sc [4]int
					r := st
					for i := 0; i < ns; i++ {
						sc[i] = r % 4
						r /= 4
					}
					for t := 0; t < 4; t++ {
						cases = append(cases, misuseCase{Op: op, N: n, ZeroPos: -1, ZeroKind: 0, Vals: [4]int{t, (t + 1) % 4, (t + 2) % 4, (t + 3) % 4}, NS: ns, Sc: sc})
					}
				}
			}
		}
	}
	subC15.RunList(ctx, cases)
	ctx.AddStates(int64(cells))
	ctx.AddTransitions(int64(len(cases)))
	ctx.AddTraces(int64(len(cases)))
	ctx.Extra("matrix_cells", cells)
	if ctx.DistinctCount("outcome") != 2 {
		ctx.Vacuous("C15: vacuous (panic and non-panic outcomes were not both observed)")
	}
}
