// Package atomic replaces sync/atomic in the scheduling build (overlay only).
// Go's atomics are sequentially consistent: every store releases, every load
// acquires, read-modify-write does both. Every operation is a scheduling point.
package atomic

import (
	"reflect"
	"unsafe"

	"filippo.io/edwards25519/vsched"
)

type number interface {
	~int32 | ~int64 | ~uint32 | ~uint64 | ~uintptr
}

type word[T comparable] struct {
	v  T
	vc vsched.VC
}

func observe[T comparable](v T) {
	switch x := any(v).(type) {
	case int32:
		vsched.Observe(uint64(x))
	case int64:
		vsched.Observe(uint64(x))
	case uint32:
		vsched.Observe(uint64(x))
	case uint64:
		vsched.Observe(x)
	case uintptr:
		vsched.Observe(uint64(x))
	case bool:
		if x {
			vsched.Observe(1)
		} else {
			vsched.Observe(0)
		}
	default:
		// pointers: identity only
		vsched.ObservePtr(reflectPtr(v))
	}
}

func (w *word[T]) load(kind string) T {
	vsched.Point("atomic-load", kind)
	vsched.Acquire(&w.vc)
	observe(w.v)
	return w.v
}
func (w *word[T]) store(kind string, v T) {
	vsched.Point("atomic-store", kind)
	vsched.Release(&w.vc)
	w.v = v
	vsched.Point("after-release", kind)
}
func (w *word[T]) swap(kind string, v T) T {
	vsched.Point("atomic-swap", kind)
	vsched.Acquire(&w.vc)
	vsched.Release(&w.vc)
	o := w.v
	w.v = v
	observe(o)
	vsched.Point("after-release", kind)
	return o
}
func (w *word[T]) cas(kind string, old, new T) bool {
	vsched.Point("atomic-cas", kind)
	vsched.Acquire(&w.vc)
	if w.v != old {
		vsched.Observe(0)
		return false
	}
	vsched.Release(&w.vc)
	w.v = new
	vsched.Observe(1)
	vsched.Point("after-release", kind)
	return true
}

// rmw applies f atomically and returns (old, new).
func rmw[T number](w *word[T], kind string, f func(T) T) (T, T) {
	vsched.Point("atomic-rmw", kind)
	vsched.Acquire(&w.vc)
	vsched.Release(&w.vc)
	o := w.v
	w.v = f(o)
	n := w.v
	observe(o)
	vsched.Point("after-release", kind)
	return o, n
}

type Int32 struct{ w word[int32] }

func (x *Int32) Load() int32                    { return x.w.load("int32") }
func (x *Int32) Store(v int32)                  { x.w.store("int32", v) }
func (x *Int32) Swap(v int32) int32             { return x.w.swap("int32", v) }
func (x *Int32) CompareAndSwap(o, n int32) bool { return x.w.cas("int32", o, n) }
func (x *Int32) Add(d int32) int32 {
	_, n := rmw(&x.w, "int32", func(v int32) int32 { return v + d })
	return n
}
func (x *Int32) And(m int32) int32 {
	o, _ := rmw(&x.w, "int32", func(v int32) int32 { return v & m })
	return o
}
func (x *Int32) Or(m int32) int32 {
	o, _ := rmw(&x.w, "int32", func(v int32) int32 { return v | m })
	return o
}

type Int64 struct{ w word[int64] }

func (x *Int64) Load() int64                    { return x.w.load("int64") }
func (x *Int64) Store(v int64)                  { x.w.store("int64", v) }
func (x *Int64) Swap(v int64) int64             { return x.w.swap("int64", v) }
func (x *Int64) CompareAndSwap(o, n int64) bool { return x.w.cas("int64", o, n) }
func (x *Int64) Add(d int64) int64 {
	_, n := rmw(&x.w, "int64", func(v int64) int64 { return v + d })
	return n
}
func (x *Int64) And(m int64) int64 {
	o, _ := rmw(&x.w, "int64", func(v int64) int64 { return v & m })
	return o
}
func (x *Int64) Or(m int64) int64 {
	o, _ := rmw(&x.w, "int64", func(v int64) int64 { return v | m })
	return o
}

type Uint32 struct{ w word[uint32] }

func (x *Uint32) Load() uint32                    { return x.w.load("uint32") }
func (x *Uint32) Store(v uint32)                  { x.w.store("uint32", v) }
func (x *Uint32) Swap(v uint32) uint32            { return x.w.swap("uint32", v) }
func (x *Uint32) CompareAndSwap(o, n uint32) bool { return x.w.cas("uint32", o, n) }
func (x *Uint32) Add(d uint32) uint32 {
	_, n := rmw(&x.w, "uint32", func(v uint32) uint32 { return v + d })
	return n
}
func (x *Uint32) And(m uint32) uint32 {
	o, _ := rmw(&x.w, "uint32", func(v uint32) uint32 { return v & m })
	return o
}
func (x *Uint32) Or(m uint32) uint32 {
	o, _ := rmw(&x.w, "uint32", func(v uint32) uint32 { return v | m })
	return o
}

type Uint64 struct{ w word[uint64] }

func (x *Uint64) Load() uint64                    { return x.w.load("uint64") }
func (x *Uint64) Store(v uint64)                  { x.w.store("uint64", v) }
func (x *Uint64) Swap(v uint64) uint64            { return x.w.swap("uint64", v) }
func (x *Uint64) CompareAndSwap(o, n uint64) bool { return x.w.cas("uint64", o, n) }
func (x *Uint64) Add(d uint64) uint64 {
	_, n := rmw(&x.w, "uint64", func(v uint64) uint64 { return v + d })
	return n
}
func (x *Uint64) And(m uint64) uint64 {
	o, _ := rmw(&x.w, "uint64", func(v uint64) uint64 { return v & m })
	return o
}
func (x *Uint64) Or(m uint64) uint64 {
	o, _ := rmw(&x.w, "uint64", func(v uint64) uint64 { return v | m })
	return o
}

type Uintptr struct{ w word[uintptr] }

func (x *Uintptr) Load() uintptr                    { return x.w.load("uintptr") }
func (x *Uintptr) Store(v uintptr)                  { x.w.store("uintptr", v) }
func (x *Uintptr) Swap(v uintptr) uintptr           { return x.w.swap("uintptr", v) }
func (x *Uintptr) CompareAndSwap(o, n uintptr) bool { return x.w.cas("uintptr", o, n) }
func (x *Uintptr) Add(d uintptr) uintptr {
	_, n := rmw(&x.w, "uintptr", func(v uintptr) uintptr { return v + d })
	return n
}

type Bool struct{ w word[bool] }

func (x *Bool) Load() bool                    { return x.w.load("bool") }
func (x *Bool) Store(v bool)                  { x.w.store("bool", v) }
func (x *Bool) Swap(v bool) bool              { return x.w.swap("bool", v) }
func (x *Bool) CompareAndSwap(o, n bool) bool { return x.w.cas("bool", o, n) }

type Pointer[T any] struct{ w word[*T] }

func (x *Pointer[T]) Load() *T                    { return x.w.load("pointer") }
func (x *Pointer[T]) Store(v *T)                  { x.w.store("pointer", v) }
func (x *Pointer[T]) Swap(v *T) *T                { return x.w.swap("pointer", v) }
func (x *Pointer[T]) CompareAndSwap(o, n *T) bool { return x.w.cas("pointer", o, n) }

// Value holds an arbitrary value (comparable dynamic types for CompareAndSwap).
type Value struct {
	v  any
	vc vsched.VC
}

func (x *Value) Load() any {
	vsched.Point("atomic-load", "value")
	vsched.Acquire(&x.vc)
	return x.v
}
func (x *Value) Store(v any) {
	vsched.Point("atomic-store", "value")
	vsched.Release(&x.vc)
	x.v = v
}
func (x *Value) Swap(v any) any {
	vsched.Point("atomic-swap", "value")
	vsched.Acquire(&x.vc)
	vsched.Release(&x.vc)
	o := x.v
	x.v = v
	return o
}
func (x *Value) CompareAndSwap(o, n any) bool {
	vsched.Point("atomic-cas", "value")
	vsched.Acquire(&x.vc)
	if x.v != o {
		return false
	}
	vsched.Release(&x.vc)
	x.v = n
	return true
}

// Function-style API on plain words: no per-word clock is available, so one
// global clock orders them (coarser: may hide a race between unrelated
// atomics, never invents one).
var globalVC vsched.VC

func fload[T any](p *T, kind string) T {
	vsched.Point("atomic-load", kind)
	vsched.Acquire(&globalVC)
	return *p
}
func fstore[T any](p *T, v T, kind string) {
	vsched.Point("atomic-store", kind)
	vsched.Release(&globalVC)
	*p = v
}
func fswap[T any](p *T, v T, kind string) T {
	vsched.Point("atomic-swap", kind)
	vsched.Acquire(&globalVC)
	vsched.Release(&globalVC)
	o := *p
	*p = v
	return o
}
func fcas[T comparable](p *T, o, n T, kind string) bool {
	vsched.Point("atomic-cas", kind)
	vsched.Acquire(&globalVC)
	if *p != o {
		return false
	}
	vsched.Release(&globalVC)
	*p = n
	return true
}
func fadd[T number](p *T, d T, kind string) T {
	vsched.Point("atomic-rmw", kind)
	vsched.Acquire(&globalVC)
	vsched.Release(&globalVC)
	*p += d
	return *p
}

func LoadInt32(p *int32) int32       { return fload(p, "int32") }
func LoadInt64(p *int64) int64       { return fload(p, "int64") }
func LoadUint32(p *uint32) uint32    { return fload(p, "uint32") }
func LoadUint64(p *uint64) uint64    { return fload(p, "uint64") }
func LoadUintptr(p *uintptr) uintptr { return fload(p, "uintptr") }
func LoadPointer(p *unsafe.Pointer) unsafe.Pointer {
	return fload(p, "pointer")
}
func StoreInt32(p *int32, v int32)       { fstore(p, v, "int32") }
func StoreInt64(p *int64, v int64)       { fstore(p, v, "int64") }
func StoreUint32(p *uint32, v uint32)    { fstore(p, v, "uint32") }
func StoreUint64(p *uint64, v uint64)    { fstore(p, v, "uint64") }
func StoreUintptr(p *uintptr, v uintptr) { fstore(p, v, "uintptr") }
func StorePointer(p *unsafe.Pointer, v unsafe.Pointer) {
	fstore(p, v, "pointer")
}
func SwapInt32(p *int32, v int32) int32         { return fswap(p, v, "int32") }
func SwapInt64(p *int64, v int64) int64         { return fswap(p, v, "int64") }
func SwapUint32(p *uint32, v uint32) uint32     { return fswap(p, v, "uint32") }
func SwapUint64(p *uint64, v uint64) uint64     { return fswap(p, v, "uint64") }
func SwapUintptr(p *uintptr, v uintptr) uintptr { return fswap(p, v, "uintptr") }
func SwapPointer(p *unsafe.Pointer, v unsafe.Pointer) unsafe.Pointer {
	return fswap(p, v, "pointer")
}
func CompareAndSwapInt32(p *int32, o, n int32) bool       { return fcas(p, o, n, "int32") }
func CompareAndSwapInt64(p *int64, o, n int64) bool       { return fcas(p, o, n, "int64") }
func CompareAndSwapUint32(p *uint32, o, n uint32) bool    { return fcas(p, o, n, "uint32") }
func CompareAndSwapUint64(p *uint64, o, n uint64) bool    { return fcas(p, o, n, "uint64") }
func CompareAndSwapUintptr(p *uintptr, o, n uintptr) bool { return fcas(p, o, n, "uintptr") }
func CompareAndSwapPointer(p *unsafe.Pointer, o, n unsafe.Pointer) bool {
	return fcas(p, o, n, "pointer")
}
func AddInt32(p *int32, d int32) int32         { return fadd(p, d, "int32") }
func AddInt64(p *int64, d int64) int64         { return fadd(p, d, "int64") }
func AddUint32(p *uint32, d uint32) uint32     { return fadd(p, d, "uint32") }
func AddUint64(p *uint64, d uint64) uint64     { return fadd(p, d, "uint64") }
func AddUintptr(p *uintptr, d uintptr) uintptr { return fadd(p, d, "uintptr") }

func reflectPtr(v any) uintptr {
	rv := reflect.ValueOf(v)
	switch rv.Kind() {
	case reflect.Pointer, reflect.UnsafePointer:
		return rv.Pointer()
	}
	return 0
}
