// Package vsync replaces the standard sync package in the scheduling build
// (injected with -overlay; not part of the repository). Each operation is a
// scheduling point of the controlled scheduler and a happens-before edge.
// Once follows the structure of the standard library's implementation
// (atomic fast path, mutex, re-check, store after f).
package vsync

import (
	"fmt"
	"reflect"

	"filippo.io/edwards25519/vsched"
	"filippo.io/edwards25519/vsync/atomic"
)

type Mutex struct {
	locked bool
	vc     vsched.VC
}

func (m *Mutex) Lock() {
	vsched.Point("lock", "mutex")
	vsched.Block("lock", "mutex", func() bool { return m.locked })
	m.locked = true
	vsched.Acquire(&m.vc)
}

func (m *Mutex) TryLock() bool {
	vsched.Point("trylock", "mutex")
	if m.locked {
		return false
	}
	m.locked = true
	vsched.Acquire(&m.vc)
	return true
}

func (m *Mutex) Unlock() {
	vsched.Point("unlock", "mutex")
	if !m.locked {
		panic("vsync: unlock of unlocked mutex")
	}
	vsched.Release(&m.vc)
	m.locked = false
	// other threads may observe the released state before this one goes on
	// with work the scheduler cannot see
	vsched.Point("after-release", "mutex")
}

type Locker interface {
	Lock()
	Unlock()
}

// RWMutex is modelled as a plain mutex (coarser, still sound for exclusion).
type RWMutex struct{ m Mutex }

func (rw *RWMutex) Lock()    { rw.m.Lock() }
func (rw *RWMutex) Unlock()  { rw.m.Unlock() }
func (rw *RWMutex) RLock()   { rw.m.Lock() }
func (rw *RWMutex) RUnlock() { rw.m.Unlock() }

type Once struct {
	done atomic.Uint32
	m    Mutex
}

func (o *Once) Do(f func()) {
	if o.done.Load() == 0 {
		o.doSlow(f)
	}
}

func (o *Once) doSlow(f func()) {
	o.m.Lock()
	defer o.m.Unlock()
	if o.done.Load() == 0 {
		defer o.done.Store(1)
		f()
	}
}

// Once objects hidden inside OnceFunc / OnceValue closures cannot be reached
// by the generated snapshot of package-level variables; they are registered
// here so that the explorer can put them back into the cold state.
var registered []*Once

// RegisteredState serialises the closure-held Once objects (for state keys).
func RegisteredState() []byte {
	var b []byte
	for _, o := range registered {
		b = append(b, fmt.Sprint(*o)...)
	}
	return b
}

// ResetRegistered returns every closure-held Once to "not yet run".
func ResetRegistered() {
	for _, o := range registered {
		*o = Once{}
	}
}

func OnceFunc(f func()) func() {
	once := new(Once)
	registered = append(registered, once)
	return func() { once.Do(f) }
}

func OnceValue[T any](f func() T) func() T {
	once := new(Once)
	registered = append(registered, once)
	var v T
	return func() T {
		once.Do(func() { v = f() })
		return v
	}
}

func OnceValues[T1, T2 any](f func() (T1, T2)) func() (T1, T2) {
	once := new(Once)
	registered = append(registered, once)
	var v1 T1
	var v2 T2
	return func() (T1, T2) {
		once.Do(func() { v1, v2 = f() })
		return v1, v2
	}
}

// Pool: a mutex-protected free list (every Get/Put is a scheduling point and
// a happens-before edge, as for the real sync.Pool).
type Pool struct {
	New   func() any
	m     Mutex
	items []any
	owned map[any]int // pointer-like objects handed out and not yet returned -> owning thread
}

func poolKey(x any) (any, bool) {
	if x == nil {
		return nil, false
	}
	switch reflect.TypeOf(x).Kind() {
	case reflect.Pointer, reflect.UnsafePointer, reflect.Chan, reflect.Map:
		return x, true
	}
	return nil, false
}

func (p *Pool) Get() any {
	p.m.Lock()
	var x any
	if n := len(p.items); n > 0 {
		x = p.items[n-1]
		p.items = p.items[:n-1]
	} else if p.New != nil {
		x = p.New()
	}
	if k, ok := poolKey(x); ok {
		if p.owned == nil {
			p.owned = map[any]int{}
		}
		if other, dup := p.owned[k]; dup {
			vsched.Fault(fmt.Sprintf("sync.Pool handed the same object to two goroutines at once (T%d still holds it, now also T%d): it was put back more than once or used after Put", other, vsched.CurID()))
		}
		p.owned[k] = vsched.CurID()
	}
	p.m.Unlock()
	return x
}

func (p *Pool) Put(x any) {
	p.m.Lock()
	if k, ok := poolKey(x); ok && p.owned != nil {
		delete(p.owned, k)
	}
	p.items = append(p.items, x)
	p.m.Unlock()
}

type WaitGroup struct {
	n  int
	vc vsched.VC
}

func (wg *WaitGroup) Add(d int) {
	vsched.Point("wg-add", "wg")
	wg.n += d
	if d < 0 {
		vsched.Release(&wg.vc)
	}
}
func (wg *WaitGroup) Done() { wg.Add(-1) }
func (wg *WaitGroup) Wait() {
	vsched.Point("wg-wait", "wg")
	vsched.Block("wg-wait", "wg", func() bool { return wg.n > 0 })
	vsched.Acquire(&wg.vc)
}
