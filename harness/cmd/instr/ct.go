package main

import (
	"fmt"
	"go/ast"
	"go/token"
	"go/types"
	"path/filepath"
	"reflect"
	"strings"
)

// ---------------------------------------------------------------- ct mode

type site struct {
	ID   int    `json:"id"`
	Pos  string `json:"pos"`
	Kind string `json:"kind"`
	Func string `json:"func"`
}

var sites []site

var denyPkgs = map[string]bool{"bytes": true, "strings": true, "math/big": true, "sort": true, "reflect": true, "slices": true}

type ctRewriter struct {
	p       *pkgInfo
	curFunc string
	used    bool
}

func (r *ctRewriter) newSite(pos token.Pos, kind string) ast.Expr {
	id := len(sites) + 1
	ps := fset.Position(pos)
	sites = append(sites, site{id, fmt.Sprintf("%s:%d:%d", filepath.Join(r.p.rel, filepath.Base(ps.Filename)), ps.Line, ps.Column), kind, r.curFunc})
	r.used = true
	return &ast.BasicLit{Kind: token.INT, Value: fmt.Sprint(id)}
}

func (r *ctRewriter) call(fn string, pos token.Pos, kind string, args ...ast.Expr) ast.Expr {
	return &ast.CallExpr{Fun: &ast.SelectorExpr{X: ast.NewIdent("vtrace"), Sel: ast.NewIdent(fn)}, Args: append([]ast.Expr{r.newSite(pos, kind)}, args...)}
}

func (r *ctRewriter) isConst(e ast.Expr) bool {
	tv, ok := r.p.info.Types[e]
	return ok && tv.Value != nil
}

func (r *ctRewriter) isInteger(e ast.Expr) bool {
	tv, ok := r.p.info.Types[e]
	if !ok || tv.Type == nil {
		return false
	}
	b, ok := tv.Type.Underlying().(*types.Basic)
	return ok && b.Info()&types.IsInteger != 0 && b.Info()&types.IsUntyped == 0
}

func isTraceCall(e ast.Expr) bool {
	c, ok := e.(*ast.CallExpr)
	if !ok {
		return false
	}
	s, ok := c.Fun.(*ast.SelectorExpr)
	if !ok {
		return false
	}
	id, ok := s.X.(*ast.Ident)
	return ok && id.Name == "vtrace"
}

// wrapCond records the outcome of every leaf operand of a condition.
func (r *ctRewriter) wrapCond(e ast.Expr, kind string) ast.Expr {
	switch v := e.(type) {
	case *ast.ParenExpr:
		v.X = r.wrapCond(v.X, kind)
		return v
	case *ast.BinaryExpr:
		if v.Op == token.LAND || v.Op == token.LOR {
			v.X = r.wrapCond(v.X, kind)
			v.Y = r.wrapCond(v.Y, kind)
			return v
		}
	case *ast.UnaryExpr:
		if v.Op == token.NOT {
			v.X = r.wrapCond(v.X, kind)
			return v
		}
	}
	if isTraceCall(e) {
		return e
	}
	return r.call("B", e.Pos(), kind, e)
}

func (r *ctRewriter) wrapInt(e ast.Expr, kind string) ast.Expr {
	if e == nil || r.isConst(e) || !r.isInteger(e) || isTraceCall(e) {
		return e
	}
	return r.call("I", e.Pos(), kind, e)
}

// expr is applied post-order to every expression.
func (r *ctRewriter) expr(e ast.Expr) ast.Expr {
	switch v := e.(type) {
	case *ast.IndexExpr:
		if tv, ok := r.p.info.Types[v.X]; ok && tv.IsValue() {
			if _, isMap := tv.Type.Underlying().(*types.Map); !isMap {
				v.Index = r.wrapInt(v.Index, "index")
			}
		}
	case *ast.SliceExpr:
		v.Low = r.wrapInt(v.Low, "slice-bound")
		v.High = r.wrapInt(v.High, "slice-bound")
		v.Max = r.wrapInt(v.Max, "slice-bound")
	case *ast.BinaryExpr:
		switch v.Op {
		case token.SHL, token.SHR:
			v.Y = r.wrapInt(v.Y, "shift-count")
		case token.QUO, token.REM:
			if !r.isConst(v.Y) && r.isInteger(v.Y) {
				v.X = r.wrapInt(v.X, "div-operand")
				v.Y = r.wrapInt(v.Y, "div-operand")
			}
		case token.EQL, token.NEQ:
			// comparisons of composite values compile to loops / calls
			if tv, ok := r.p.info.Types[v.X]; ok && tv.Type != nil {
				switch tv.Type.Underlying().(type) {
				case *types.Array, *types.Struct, *types.Interface:
					return r.call("B", v.Pos(), "composite-compare", v)
				case *types.Basic:
					if tv.Type.Underlying().(*types.Basic).Info()&types.IsString != 0 && !r.isConst(v) {
						return r.call("B", v.Pos(), "string-compare", v)
					}
				}
			}
		}
	case *ast.CallExpr:
		if se, ok := v.Fun.(*ast.SelectorExpr); ok {
			if id, ok := se.X.(*ast.Ident); ok {
				if pn, ok := r.p.info.Uses[id].(*types.PkgName); ok && denyPkgs[pn.Imported().Path()] {
					for i, a := range v.Args {
						if !r.isConst(a) && !isTraceCall(a) {
							v.Args[i] = r.call("A", a.Pos(), "vartime-call-operand:"+pn.Imported().Path()+"."+se.Sel.Name, a)
						}
					}
				}
			}
			// methods of math/big values
			if sel := r.p.info.Selections[se]; sel != nil && sel.Obj().Pkg() != nil && denyPkgs[sel.Obj().Pkg().Path()] {
				for i, a := range v.Args {
					if !r.isConst(a) && !isTraceCall(a) {
						v.Args[i] = r.call("A", a.Pos(), "vartime-call-operand:"+sel.Obj().Pkg().Path()+"."+se.Sel.Name, a)
					}
				}
			}
		}
	}
	return e
}

var exprType = reflect.TypeOf((*ast.Expr)(nil)).Elem()

// walk applies r.expr post-order to every ast.Expr reachable from v and
// handles statement-level conditions.
func (r *ctRewriter) walk(v reflect.Value) {
	switch v.Kind() {
	case reflect.Interface:
		if v.IsNil() {
			return
		}
		r.walk(v.Elem())
	case reflect.Pointer:
		if v.IsNil() {
			return
		}
		switch n := v.Interface().(type) {
		case *ast.Object, *ast.Scope, *ast.CommentGroup, *ast.Comment, *ast.Ident, *ast.BasicLit:
			_ = n
			return
		}
		r.walk(v.Elem())
		r.afterNode(v.Interface())
	case reflect.Struct:
		for i := 0; i < v.NumField(); i++ {
			f := v.Field(i)
			if !f.CanSet() {
				continue
			}
			if f.Type() == exprType {
				if f.IsNil() {
					continue
				}
				// types are expressions too: do not descend into pure type syntax
				switch f.Interface().(type) {
				case *ast.ArrayType, *ast.StructType, *ast.FuncType, *ast.InterfaceType, *ast.MapType, *ast.ChanType:
					continue
				}
				r.walk(f)
				ne := r.expr(f.Interface().(ast.Expr))
				f.Set(reflect.ValueOf(ne))
				continue
			}
			r.walk(f)
		}
	case reflect.Slice:
		for i := 0; i < v.Len(); i++ {
			el := v.Index(i)
			if el.Type() == exprType {
				if el.IsNil() {
					continue
				}
				r.walk(el)
				el.Set(reflect.ValueOf(r.expr(el.Interface().(ast.Expr))))
				continue
			}
			r.walk(el)
		}
	}
}

func (r *ctRewriter) afterNode(n any) {
	switch s := n.(type) {
	case *ast.IfStmt:
		s.Cond = r.wrapCond(s.Cond, "if")
	case *ast.ForStmt:
		if s.Cond != nil {
			s.Cond = r.wrapCond(s.Cond, "for")
		}
	case *ast.SwitchStmt:
		if s.Tag == nil {
			for _, c := range s.Body.List {
				cc := c.(*ast.CaseClause)
				for i, e := range cc.List {
					cc.List[i] = r.wrapCond(e, "switch-case")
				}
			}
		} else if r.isInteger(s.Tag) && !r.isConst(s.Tag) {
			s.Tag = r.call("I", s.Tag.Pos(), "switch-tag", s.Tag)
		} else if !r.isConst(s.Tag) {
			s.Tag = r.call("A", s.Tag.Pos(), "switch-tag", s.Tag)
		}
	}
}

// rangeLenStmts: for `range x` over a slice held in a plain identifier or
// selector, record len(x) (the trip count) before the loop.
func (r *ctRewriter) blockRangeLens(b *ast.BlockStmt) {
	if b == nil {
		return
	}
	var out []ast.Stmt
	for _, st := range b.List {
		if rs, ok := st.(*ast.RangeStmt); ok {
			if tv, ok := r.p.info.Types[rs.X]; ok && tv.Type != nil {
				_, isSlice := tv.Type.Underlying().(*types.Slice)
				_, isId := rs.X.(*ast.Ident)
				_, isSel := rs.X.(*ast.SelectorExpr)
				if isSlice && (isId || isSel) {
					out = append(out, &ast.ExprStmt{X: r.call("I", rs.Pos(), "range-len", &ast.CallExpr{Fun: ast.NewIdent("len"), Args: []ast.Expr{rs.X}})})
				}
			}
		}
		out = append(out, st)
	}
	b.List = out
}

func instrumentCT(p *pkgInfo, out string, overlay map[string]string, report map[string]any) {
	first := len(sites)
	for i, f := range p.files {
		r := &ctRewriter{p: p}
		for _, d := range f.Decls {
			fd, ok := d.(*ast.FuncDecl)
			if !ok || fd.Body == nil {
				continue
			}
			r.curFunc = fd.Name.Name
			if fd.Recv != nil && len(fd.Recv.List) > 0 {
				r.curFunc = types.ExprString(fd.Recv.List[0].Type) + "." + fd.Name.Name
			}
			// range trip counts first (needs original nodes for type info)
			ast.Inspect(fd.Body, func(x ast.Node) bool {
				if b, ok := x.(*ast.BlockStmt); ok {
					r.blockRangeLens(b)
				}
				if cc, ok := x.(*ast.CaseClause); ok {
					tmp := &ast.BlockStmt{List: cc.Body}
					r.blockRangeLens(tmp)
					cc.Body = tmp.List
				}
				return true
			})
			r.walk(reflect.ValueOf(fd.Body))
			if strings.Contains(fd.Name.Name, "VarTime") {
				mark := &ast.ExprStmt{X: r.call("Mark", fd.Pos(), "vartime-function-entered")}
				fd.Body.List = append([]ast.Stmt{mark}, fd.Body.List...)
			}
		}
		if r.used {
			addImport(f, "vtrace", modPath+"/vtrace")
		}
		writeFile(p, i, f, out, overlay)
	}
	report[p.path] = map[string]any{"sites": len(sites) - first}
	report["sites"] = sites
}
