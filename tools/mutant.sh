#!/bin/bash
# tools/mutant.sh <patch> <prop>[,<prop>...] [tier] [--suite]
# Applies a patch to a scratch copy of /repo (never /repo itself), optionally
# runs the repository's own tests there, runs the named checks with VERIF_REPO
# pointing at the copy, prints verdicts, removes the copy.
set -u
patch="$(readlink -f "$1")"; props="$2"; tier="${3:-quick}"; suite="${4:-}"
export GOFLAGS=-mod=mod GOPROXY=off GOSUMDB=off GOTOOLCHAIN=local
S="$(mktemp -d /var/tmp/mut.XXXXXX)"
trap 'rm -rf "$S"' EXIT
git -C /repo archive HEAD | tar -x -C "$S" || exit 2
# include uncommitted working tree state of /repo
( cd /repo && git diff HEAD ) | ( cd "$S" && patch -p1 -s ) 2>/dev/null
( cd "$S" && patch -p1 -s < "$patch" ) || { echo "PATCH-FAILED $patch"; exit 2; }
if [ "$suite" = "--suite" ]; then
  if ( cd "$S" && go test -vet=off -count=1 ./... >/dev/null 2>&1 ); then echo "suite: PASS (mutant survives the 78 tests)"; else echo "suite: FAIL (mutant killed by existing tests)"; fi
fi
rc_all=0
for p in ${props//,/ }; do
  out="$(VERIF_REPO="$S" VERIF_OUT="$S/.out" /verif/check "$p" "$tier" 2>&1)"; rc=$?
  echo "$(basename "$patch") $p rc=$rc $(echo "$out" | grep -m1 -E 'VIOLATION|PASS|INTERNAL' )"
  echo "$out" | grep -m2 '^  sub=' 
  [ $rc -ne 0 ] || rc_all=1
done
exit 0
