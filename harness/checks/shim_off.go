//go:build noshim

package checks

import (
	"filippo.io/edwards25519"
	"filippo.io/edwards25519/field"
)

// Fallback build: the shim did not compile against this tree (an internal was
// renamed). Shim-dependent sub-checks are skipped and recorded as skipped.
const shimAvailable = false

func shimRadix16(s *edwards25519.Scalar) [64]int8             { panic("no shim") }
func shimNAF(s *edwards25519.Scalar, w uint) [256]int8        { panic("no shim") }
func shimProjTable(q *edwards25519.Point) [8][4]field.Element { panic("no shim") }
func shimNafTable5(q *edwards25519.Point) [8][4]field.Element { panic("no shim") }
func shimProjSelect(q *edwards25519.Point, x int8) [4]field.Element {
	panic("no shim")
}
func shimBaseEntry(i, j int) [3]field.Element       { panic("no shim") }
func shimBaseSelect(i int, x int8) [3]field.Element { panic("no shim") }
func shimBaseNafEntry(j int) [3]field.Element       { panic("no shim") }
func shimFeMulGeneric(v, a, b *field.Element)       { panic("no shim") }
func shimFeSquareGeneric(v, a *field.Element)       { panic("no shim") }
func shimFeMul(v, a, b *field.Element)              { panic("no shim") }
func shimFeSquare(v, a *field.Element)              { panic("no shim") }
