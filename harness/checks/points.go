package checks

import (
	"bytes"
	"fmt"
	"math/big"
	"strings"

	"filippo.io/edwards25519"
	"filippo.io/edwards25519/field"
	"verif/harness/alpha"
	"verif/harness/core"
	"verif/harness/ref"
)

// ptIn names a model point by its canonical encoding plus the representation
// (alpha.MakePoint form) in which it is handed to the implementation.
type ptIn struct {
	Enc  Hex `json:"enc"`
	Form int `json:"form"`
	// Flip selects a sign-flip partner of the representation: an even subset
	// of (X,Y,Z,T) is negated, which is again a valid quadruple, of a point
	// that is in general DIFFERENT from Enc's but shares the raw limbs of the
	// untouched coordinates (e.g. Flip 1 negates Z and T: the point (-x,-y)
	// with the same X and Y limbs). 0 = none.
	Flip int `json:"flip,omitempty"`
}

// flipMasks: which of X,Y,Z,T are negated (bit 0 = X ... bit 3 = T).
var flipMasks = []int{0, 0b1100, 0b0011, 0b0101, 0b1001, 0b0110, 0b1010, 0b1111}

func (p ptIn) base() ref.Pt {
	pt, ok := ref.Decode(p.Enc)
	if !ok {
		panic("harness: alphabet point does not decode in the model")
	}
	return pt
}

func (p ptIn) model() ref.Pt {
	pt := p.base()
	m := flipMasks[p.Flip]
	sx := (m&1 != 0) != (m&4 != 0)
	sy := (m&2 != 0) != (m&4 != 0)
	if sx {
		pt.X = ref.FNeg(pt.X)
	}
	if sy {
		pt.Y = ref.FNeg(pt.Y)
	}
	return pt
}

func (p ptIn) point() *edwards25519.Point {
	q := alpha.MakePoint(p.base(), p.Form)
	if p.Flip == 0 {
		return q
	}
	X, Y, Z, T := q.ExtendedCoordinates()
	raw := alpha.PointLimbs(q)
	el := []*field.Element{X, Y, Z, T}
	m := flipMasks[p.Flip]
	for i := 0; i < 4; i++ {
		var l alpha.Limbs
		copy(l[:], raw[5*i:5*i+5])
		*el[i] = alpha.ElemFromLimbs(l) // exact limbs (do not trust the accessor's copy semantics)
		if m>>i&1 == 1 {
			el[i].Negate(el[i])
		}
	}
	return alpha.MakePointFromElems(X, Y, Z, T)
}

func ptOf(np alpha.NamedPt, form int) ptIn {
	e := ref.Encode(np.P)
	return ptIn{Enc: Hex(e[:]), Form: form}
}

func pointIns(quick bool, forms []int) []ptIn {
	var out []ptIn
	for _, np := range alpha.Points(quick) {
		for _, f := range forms {
			out = append(out, ptOf(np, f))
		}
	}
	return out
}

func formsFor(ctx *core.Ctx, q, t int) []int {
	n := tierN(ctx, q, t)
	all := []int{0, 6, 5, 3, 7, 1, 2, 4}
	return all[:n]
}

// ---------------- C02 ----------------

type ptBinCase struct {
	Op string `json:"op"`
	P  ptIn   `json:"p"`
	Q  ptIn   `json:"q"`
}

var subC02 = core.NewSub("C02/grouplaw", func(w *core.Worker, c ptBinCase) *core.Fail {
	p, q := c.P.point(), c.Q.point()
	pm, qm := c.P.model(), c.Q.model()
	praw, qraw := alpha.PointRaw(p), alpha.PointRaw(q)
	r := new(edwards25519.Point)
	var ret *edwards25519.Point
	var want ref.Pt
	switch c.Op {
	case "Add":
		ret, want = r.Add(p, q), ref.Add(pm, qm)
	case "Subtract":
		ret, want = r.Subtract(p, q), ref.Sub(pm, qm)
	case "Negate":
		ret, want = r.Negate(p), ref.Neg(pm)
	case "MultByCofactor":
		ret, want = r.MultByCofactor(p), ref.Mul(big.NewInt(8), pm)
	case "AddSelfPtr": // same pointer as both operands
		ret, want = r.Add(p, p), ref.Add(pm, pm)
	case "SubSelfPtr":
		ret, want = r.Subtract(p, p), ref.Identity()
	case "AddRecvP", "SubRecvP", "AddRecvQ", "SubRecvQ", "NegateRecv", "CofactorRecv", "AddAllSame", "SubAllSame":
		// receiver aliased to an operand: the group law must not depend on it
		switch c.Op {
		case "AddRecvP":
			r, want = p, ref.Add(pm, qm)
			ret = r.Add(p, q)
			praw = alpha.PointRaw(p)
		case "SubRecvP":
			r, want = p, ref.Sub(pm, qm)
			ret = r.Subtract(p, q)
			praw = alpha.PointRaw(p)
		case "AddRecvQ":
			r, want = q, ref.Add(pm, qm)
			ret = r.Add(p, q)
			qraw = alpha.PointRaw(q)
		case "SubRecvQ":
			r, want = q, ref.Sub(pm, qm)
			ret = r.Subtract(p, q)
			qraw = alpha.PointRaw(q)
		case "NegateRecv":
			r, want = p, ref.Neg(pm)
			ret = r.Negate(p)
			praw, qraw = alpha.PointRaw(p), alpha.PointRaw(q)
		case "CofactorRecv":
			r, want = p, ref.Mul(big.NewInt(8), pm)
			ret = r.MultByCofactor(p)
			praw, qraw = alpha.PointRaw(p), alpha.PointRaw(q)
		case "AddAllSame":
			r, want = p, ref.Add(pm, pm)
			ret = r.Add(p, p)
			praw, qraw = alpha.PointRaw(p), alpha.PointRaw(q)
		case "SubAllSame":
			r, want = p, ref.Identity()
			ret = r.Subtract(p, p)
			praw, qraw = alpha.PointRaw(p), alpha.PointRaw(q)
		}
	default:
		panic("bad op")
	}
	if ret != r {
		return core.Failf("%s did not return the receiver", c.Op)
	}
	_, _ = praw, qraw // arguments staying untouched is C11's business
	e := ref.Encode(want)
	w.Distinct("nontrivial:results", e[:])
	if f := pointMatches(r, want); f != nil {
		return core.Failf("%s(%s,%s): %s", c.Op, fmtPt(pm), fmtPt(qm), f.Msg)
	}
	return nil
})

// A point variable is used as an operand, then overwritten through some
// writer, then used again: whatever a tree caches inside a Point about its
// last use must not survive the overwrite.
type staleCase struct {
	Writer string `json:"writer"`
	Reader string `json:"reader"`
	Old    ptIn   `json:"old"`
	New    ptIn   `json:"new"`
}

var staleWriters = []string{"Set", "SetBytes", "SetExtendedCoordinates", "SetExtendedCoordinates-scaled", "Negate", "Negate-self", "Add", "Subtract", "MultByCofactor", "ScalarMult", "ScalarBaseMult", "VarTimeDoubleScalarBaseMult", "MultiScalarMult", "VarTimeMultiScalarMult"}
var staleReaders = []string{"Add-second", "Add-first", "Subtract-second", "Subtract-first", "Equal", "Bytes", "BytesMontgomery", "ScalarMult", "VarTimeDoubleScalarBaseMult", "Negate", "MultByCofactor", "MultiScalarMult"}

func staleRead(reader string, q *edwards25519.Point, qm ref.Pt) ([]byte, []byte) {
	B := ref.Base()
	enc := func(p ref.Pt) []byte { e := ref.Encode(p); return e[:] }
	R := ref.Mul(big.NewInt(5), B)
	rp := alpha.MakePoint(R, 6)
	k := mkScalar(big.NewInt(9))
	switch reader {
	case "Add-second":
		return new(edwards25519.Point).Add(rp, q).Bytes(), enc(ref.Add(R, qm))
	case "Add-first":
		return new(edwards25519.Point).Add(q, rp).Bytes(), enc(ref.Add(qm, R))
	case "Subtract-second":
		return new(edwards25519.Point).Subtract(rp, q).Bytes(), enc(ref.Sub(R, qm))
	case "Subtract-first":
		return new(edwards25519.Point).Subtract(q, rp).Bytes(), enc(ref.Sub(qm, R))
	case "Equal":
		e := byte(0)
		if qm.Equal(R) {
			e = 1
		}
		return []byte{byte(q.Equal(rp))}, []byte{e}
	case "Bytes":
		return q.Bytes(), enc(qm)
	case "BytesMontgomery":
		m := ref.Montgomery(qm)
		return q.BytesMontgomery(), m[:]
	case "ScalarMult":
		return new(edwards25519.Point).ScalarMult(k, q).Bytes(), enc(ref.Mul(big.NewInt(9), qm))
	case "VarTimeDoubleScalarBaseMult":
		return new(edwards25519.Point).VarTimeDoubleScalarBaseMult(k, q, k).Bytes(), enc(ref.Add(ref.Mul(big.NewInt(9), qm), ref.Mul(big.NewInt(9), B)))
	case "Negate":
		return new(edwards25519.Point).Negate(q).Bytes(), enc(ref.Neg(qm))
	case "MultByCofactor":
		return new(edwards25519.Point).MultByCofactor(q).Bytes(), enc(ref.Mul(big.NewInt(8), qm))
	case "MultiScalarMult":
		return new(edwards25519.Point).MultiScalarMult([]*edwards25519.Scalar{k, k}, []*edwards25519.Point{q, rp}).Bytes(), enc(ref.Add(ref.Mul(big.NewInt(9), qm), ref.Mul(big.NewInt(9), R)))
	}
	panic("bad reader")
}

var subC02Stale = core.NewSub("C02/overwritten-operand", func(w *core.Worker, c staleCase) *core.Fail {
	q := c.Old.point()
	om, nm := c.Old.model(), c.New.model()
	// first use (every reader once, so that anything memoised is memoised)
	for _, r := range staleReaders {
		if g, want := staleRead(r, q, om); !bytes.Equal(g, want) {
			return core.Failf("%s on %s: %x want %x", r, c.Old.Enc, g, want)
		}
	}
	// Copies taken after the first use and before the overwrite: v stays as it is, v2 is overwritten
	// like q. Whatever a tree hangs on a Point (a memo behind a pointer, say) is shared by such copies;
	// the un-mutated copy must go on behaving as Old after its siblings were overwritten and used again.
	v := new(edwards25519.Point).Set(q)
	v2 := new(edwards25519.Point).Set(q)
	// overwrite q so that it now holds New
	B := ref.Base()
	one := mkScalar(big.NewInt(1))
	src := c.New.point()
	var werr *core.Fail
	overwrite := func(q *edwards25519.Point) {
		switch c.Writer {
		case "Set":
			q.Set(src)
		case "SetBytes":
			e := ref.Encode(nm)
			if _, err := q.SetBytes(e[:]); err != nil {
				werr = core.Failf("SetBytes rejected a valid encoding")
				return
			}
		case "SetExtendedCoordinates":
			X, Y, Z, T := src.ExtendedCoordinates()
			if _, err := q.SetExtendedCoordinates(X, Y, Z, T); err != nil {
				werr = core.Failf("SetExtendedCoordinates rejected valid coordinates")
				return
			}
		case "SetExtendedCoordinates-scaled": // the SAME point as before, in another representation
			nm = om
			X, Y, Z, T := q.ExtendedCoordinates()
			two := new(field.Element).Add(new(field.Element).One(), new(field.Element).One())
			X.Multiply(X, two)
			Y.Multiply(Y, two)
			Z.Multiply(Z, two)
			T.Multiply(T, two)
			if _, err := q.SetExtendedCoordinates(X, Y, Z, T); err != nil {
				werr = core.Failf("SetExtendedCoordinates rejected scaled coordinates")
				return
			}
		case "Negate":
			q.Negate(alpha.MakePoint(ref.Neg(nm), c.New.Form))
		case "Negate-self":
			nm = ref.Neg(om)
			q.Negate(q)
		case "Add":
			q.Add(alpha.MakePoint(ref.Sub(nm, B), c.New.Form), alpha.MakePoint(B, 3))
		case "Subtract":
			q.Subtract(alpha.MakePoint(ref.Add(nm, B), c.New.Form), alpha.MakePoint(B, 5))
		case "MultByCofactor":
			nm = ref.Mul(big.NewInt(8), nm)
			q.MultByCofactor(src)
		case "ScalarMult":
			q.ScalarMult(one, src)
		case "ScalarBaseMult":
			nm = B
			q.ScalarBaseMult(one)
		case "VarTimeDoubleScalarBaseMult":
			q.VarTimeDoubleScalarBaseMult(one, src, edwards25519.NewScalar())
		case "MultiScalarMult":
			q.MultiScalarMult([]*edwards25519.Scalar{one}, []*edwards25519.Point{src})
		case "VarTimeMultiScalarMult":
			q.VarTimeMultiScalarMult([]*edwards25519.Scalar{one}, []*edwards25519.Point{src})
		}
	}
	overwrite(q)
	if werr != nil {
		return werr
	}
	g, want := staleRead(c.Reader, q, nm)
	if !bytes.Equal(g, want) {
		return core.Failf("%s on a variable that held %s, was used as an operand, and was then overwritten by %s with %s: %x want %x", c.Reader, c.Old.Enc, c.Writer, fmtPt(nm), g, want)
	}
	w.Distinct("nontrivial:results", g)
	// second sibling overwritten the same way; then every reader on both overwritten variables
	// (refilling whatever they memoise), then every reader on the untouched copy
	nmq := nm
	nm = c.New.model()
	overwrite(v2)
	if werr != nil {
		return werr
	}
	for _, r := range staleReaders {
		if g, want := staleRead(r, q, nmq); !bytes.Equal(g, want) {
			return core.Failf("%s (second round) on the variable overwritten by %s with %s: %x want %x", r, c.Writer, fmtPt(nmq), g, want)
		}
		if g, want := staleRead(r, v2, nm); !bytes.Equal(g, want) {
			return core.Failf("%s on a copy (Set) of a used variable, overwritten by %s with %s: %x want %x", r, c.Writer, fmtPt(nm), g, want)
		}
	}
	for _, r := range staleReaders {
		if g, want := staleRead(r, v, om); !bytes.Equal(g, want) {
			return core.Failf("%s on a copy (Set) of %s taken after the original had been used as an operand: after the original and a sibling copy were overwritten by %s and used again, the untouched copy no longer behaves as %s: %x want %x", r, c.Old.Enc, c.Writer, c.Old.Enc, g, want)
		}
	}
	return nil
})

func init() { register("C02", "exploration", runC02) }

func runC02(ctx *core.Ctx) {
	ctx.Rule("all ordered pairs of alphabet P (E[8], multiples of B, torsion+multiples; closed under negation and translation by (0,-1)) x representations (lambda in {1,2,-1,sqrt(-1),generic} x limb forms) for Add/Subtract with a fresh receiver, the receiver aliased to the first and to the second operand; all P x all 8 representations for Negate/MultByCofactor and same-pointer Add/Subtract; compared through Bytes() and ExtendedCoordinates() with the affine addition law. distinct_nontrivial = distinct result points")
	ctx.Assume("math/big is correct", "points outside alphabet P are not decided")
	pf := pointIns(smoke(ctx), []int{0, 6, 5, 3, 7}[:sz(ctx, 2, 3, 5)])
	n := len(pf)
	ops := []string{"Add", "Subtract", "AddRecvP", "SubRecvP", "AddRecvQ", "SubRecvQ"}
	subC02.Run(ctx, n*n*len(ops), func(i int) ptBinCase {
		return ptBinCase{ops[i%len(ops)], pf[(i/len(ops))/n], pf[(i/len(ops))%n]}
	})
	// sign-flip partners: the second operand shares raw coordinate limbs with
	// the first but is a different point (shortcuts keyed on "same X and Y")
	var fp []ptBinCase
	for _, base := range pointIns(smoke(ctx), []int{0, 6, 5}) {
		for k := 1; k < len(flipMasks); k++ {
			q := base
			q.Flip = k
			for _, op := range ops {
				fp = append(fp, ptBinCase{op, base, q}, ptBinCase{op, q, base})
			}
		}
	}
	subC02.RunList(ctx, fp)
	all := pointIns(smoke(ctx), []int{0, 1, 2, 3, 4, 5, 6, 7})
	un := []string{"Negate", "MultByCofactor", "AddSelfPtr", "SubSelfPtr", "NegateRecv", "CofactorRecv", "AddAllSame", "SubAllSame"}
	subC02.Run(ctx, len(all)*len(un), func(i int) ptBinCase { return ptBinCase{un[i%len(un)], all[i/len(un)], all[i/len(un)]} })
	var sc []staleCase
	olds := pointIns(true, []int{0, 6})
	for oi, o := range olds {
		if oi%sz(ctx, 5, 3, 1) != 0 {
			continue
		}
		n := olds[(oi+7)%len(olds)]
		for _, wr := range staleWriters {
			for _, rd := range staleReaders {
				sc = append(sc, staleCase{wr, rd, o, n})
			}
		}
	}
	subC02Stale.RunList(ctx, sc)
	ctx.Extra("points", len(alpha.Points(smoke(ctx))))
}

// ---------------- C06 ----------------

var subC06 = core.NewSub("C06/equal", func(w *core.Worker, c ptBinCase) *core.Fail {
	p, q := c.P.point(), c.Q.point()
	if c.Op == "SelfPtr" {
		q = p
	}
	exp := 0
	if c.P.model().Equal(c.Q.model()) {
		exp = 1
	}
	got := p.Equal(q)
	if got != exp {
		return core.Failf("Equal(%s form %d, %s form %d)=%d want %d", c.P.Enc, c.P.Form, c.Q.Enc, c.Q.Form, got, exp)
	}
	if g2 := q.Equal(p); g2 != exp {
		return core.Failf("Equal swapped (%s,%s)=%d want %d", c.Q.Enc, c.P.Enc, g2, exp)
	}
	pm, qm := c.P.model(), c.Q.model()
	shared := 0
	if pm.X.Cmp(qm.X) == 0 {
		shared |= 1
	}
	if pm.Y.Cmp(qm.Y) == 0 {
		shared |= 2
	}
	w.Distinct("equal-outcomes", []byte{byte(exp)})
	if exp == 0 && shared != 0 {
		w.Distinct("nontrivial:negatives-sharing-a-coordinate", append(append([]byte{}, c.P.Enc...), c.Q.Enc...))
	}
	if exp == 1 {
		w.Distinct("nontrivial:positives", append([]byte{byte(c.P.Form), byte(c.Q.Form)}, c.P.Enc...))
	}
	return nil
})

// Difference-targeted representations: the second operand is scaled so that
// the cross-multiplied difference X1*Z2 - X2*Z1 (or the Y one) is exactly a
// chosen value delta - every single bit and limb-boundary pattern - which is
// what a comparison that ignores some bits of the difference would miss.
type ptDiffCase struct {
	P     Hex    `json:"p"`
	Q     Hex    `json:"q"`
	Coord string `json:"coord"` // "x" or "y"
	Delta Hex    `json:"delta"` // field value (LE) the cross difference is made equal to
}

var subC06Diff = core.NewSub("C06/targeted-difference", func(w *core.Worker, c ptDiffCase) *core.Fail {
	pm, ok1 := ref.Decode(c.P)
	qm, ok2 := ref.Decode(c.Q)
	if !ok1 || !ok2 {
		panic("harness: bad point in ptDiffCase")
	}
	delta := ref.FromLE(c.Delta)
	// P with Z=1; Q with Z=lambda: X1*Z2 - X2*Z1 = lambda*(x1 - x2)
	var d *big.Int
	if c.Coord == "x" {
		d = ref.FSub(pm.X, qm.X)
	} else {
		d = ref.FSub(pm.Y, qm.Y)
	}
	if d.Sign() == 0 {
		return nil
	}
	lam := ref.FDiv(delta, d)
	if lam.Sign() == 0 {
		return nil
	}
	p := alpha.MakePoint(pm, 0)
	co := alpha.PointCoords(qm, lam)
	var e [4]field.Element
	for i := range e {
		e[i] = alpha.ElemCanon(co[i])
	}
	q := alpha.MakePointFromElems(&e[0], &e[1], &e[2], &e[3])
	if got := p.Equal(q); got != 0 {
		return core.Failf("Equal(%s, %s scaled by lambda so that the %s cross-difference is %x) = %d want 0", c.P, c.Q, c.Coord, delta, got)
	}
	if got := q.Equal(p); got != 0 {
		return core.Failf("Equal(%s scaled so that the %s cross-difference is %x, %s) = %d want 0", c.Q, c.Coord, delta, c.P, got)
	}
	w.Distinct("nontrivial:targeted-differences", append([]byte(c.Coord), c.Delta...))
	return nil
})

// A Point that lives through many writes: whatever a tree keeps per object about its last comparison
// (a memo with a generation counter, say) must be invalidated by the 256th and the 65536th write too.
type longCase struct {
	Writer string `json:"writer"`
	Writes int    `json:"writes"`
}

var subC06Long = core.NewSub("C06/long-lived-object", func(w *core.Worker, c longCase) *core.Fail {
	B := ref.Base()
	bp := alpha.MakePoint(B, 0)
	two := ref.Add(B, B)
	tp := alpha.MakePoint(two, 6)
	acc := alpha.MakePoint(B, 3)
	am := B
	// compared (both orders) and encoded before the writes
	if acc.Equal(bp) != 1 || bp.Equal(acc) != 1 || acc.Equal(tp) != 0 {
		return core.Failf("Equal wrong before any write")
	}
	acc.Bytes()
	encB, enc2 := ref.Encode(B), ref.Encode(two)
	for i := 0; i < c.Writes; i++ {
		switch c.Writer {
		case "Add":
			acc.Add(acc, bp)
		case "Subtract":
			acc.Subtract(acc, bp)
		case "Set":
			if i%2 == 0 {
				acc.Set(tp)
			} else {
				acc.Set(bp)
			}
		case "Negate":
			acc.Negate(acc)
		case "SetBytes":
			e := encB[:]
			if i%2 == 0 {
				e = enc2[:]
			}
			if _, err := acc.SetBytes(e); err != nil {
				return core.Failf("SetBytes rejected a valid encoding")
			}
		}
	}
	n := int64(c.Writes)
	switch c.Writer {
	case "Add":
		am = ref.Mul(big.NewInt(n+1), B)
	case "Subtract":
		am = ref.Neg(ref.Mul(big.NewInt(n-1), B))
	case "Set", "SetBytes":
		if n%2 == 1 {
			am = two
		}
	case "Negate":
		if n%2 == 1 {
			am = ref.Neg(B)
		}
	}
	want := alpha.MakePoint(am, 5)
	exp := func(a, b ref.Pt) int {
		if a.Equal(b) {
			return 1
		}
		return 0
	}
	for _, t := range []struct {
		name string
		got  int
		want int
	}{
		{"acc.Equal(model value)", acc.Equal(want), 1},
		{"(model value).Equal(acc)", want.Equal(acc), 1},
		{"acc.Equal(B)", acc.Equal(bp), exp(am, B)},
		{"B.Equal(acc)", bp.Equal(acc), exp(am, B)},
		{"acc.Equal(2B)", acc.Equal(tp), exp(am, two)},
	} {
		if t.got != t.want {
			return core.Failf("after %d writes by %s to one Point that had been compared before: %s = %d want %d", c.Writes, c.Writer, t.name, t.got, t.want)
		}
	}
	if f := pointMatches(acc, am); f != nil {
		return core.Failf("after %d writes by %s: %s", c.Writes, c.Writer, f.Msg)
	}
	e := ref.Encode(am)
	w.Distinct("nontrivial:results", e[:])
	return nil
})

func init() { register("C06", "exploration", runC06) }

func runC06(ctx *core.Ctx) {
	ctx.Rule("all ordered pairs of alphabet P, each side in several projective representations; expected 1 iff same model point; the alphabet contains P, -P, P+(0,-1) and -(P+(0,-1)) so negatives sharing exactly one coordinate occur; both argument orders; v.Equal(v). distinct_nontrivial = distinct hard negatives (sharing one coordinate) + distinct positive (point, form, form) triples")
	ctx.Assume("math/big is correct")
	pf := pointIns(smoke(ctx), []int{0, 6, 5, 3, 7, 1}[:sz(ctx, 3, 4, 6)])
	n := len(pf)
	subC06.Run(ctx, n*n, func(i int) ptBinCase { return ptBinCase{"Equal", pf[i/n], pf[i%n]} })
	subC06.Run(ctx, n, func(i int) ptBinCase { return ptBinCase{"SelfPtr", pf[i], pf[i]} })
	var fq []ptBinCase
	for _, base := range pointIns(smoke(ctx), []int{0, 6, 5}) {
		for k := 1; k < len(flipMasks); k++ {
			q := base
			q.Flip = k
			fq = append(fq, ptBinCase{"Equal", base, q})
		}
	}
	subC06.RunList(ctx, fq)
	// targeted differences: every single-bit delta and limb-corner deltas, for
	// the hard negative pairs (P,-P) [same y] and (P, -(P+(0,-1))) [same x] and a generic pair
	var deltas []*big.Int
	for k := uint(0); k < 255; k++ {
		deltas = append(deltas, new(big.Int).Lsh(big.NewInt(1), k))
	}
	for i := 0; i < latticeSize(3); i++ {
		v := ref.FRed(alpha.LimbValue(latticeAt(3, i)))
		if v.Sign() != 0 {
			deltas = append(deltas, v)
		}
	}
	for _, k := range []uint{32, 64, 96, 128, 160, 192, 224} {
		deltas = append(deltas, new(big.Int).Sub(new(big.Int).Lsh(big.NewInt(1), k), big.NewInt(1)), new(big.Int).Lsh(big.NewInt(0xffffffff), k))
	}
	B := ref.Base()
	T := ref.Torsion()
	g := ref.Add(T[1], ref.Mul(alpha.GenericScalar, B))
	pairs := [][2]ref.Pt{{B, ref.Neg(B)}, {B, ref.Neg(ref.Add(B, T[4]))}, {g, ref.Neg(g)}, {g, ref.Neg(ref.Add(g, T[4]))}, {B, g}, {T[1], T[3]}}
	var dc []ptDiffCase
	for _, pr := range pairs {
		pe, qe := ref.Encode(pr[0]), ref.Encode(pr[1])
		for _, d := range deltas {
			for _, co := range []string{"x", "y"} {
				dc = append(dc, ptDiffCase{Hex(pe[:]), Hex(qe[:]), co, le32(d)})
			}
		}
	}
	subC06Diff.RunList(ctx, dc)
	// one long-lived Point written many times between two comparisons
	var lc []longCase
	for _, wr := range []string{"Add", "Subtract", "Set", "Negate", "SetBytes"} {
		for _, n := range []int{1, 2, 255, 256, 257, 511, 512, 513, 65535, 65536, 65537} {
			if wr == "SetBytes" && n > 1000 {
				continue
			}
			lc = append(lc, longCase{wr, n})
		}
	}
	subC06Long.RunList(ctx, lc)
	if ctx.DistinctCount("equal-outcomes") != 2 || ctx.DistinctCount("nontrivial:negatives-sharing-a-coordinate") < 8 {
		ctx.Vacuous("C06: vacuous coverage (no hard negatives)")
	}
}

// ---------------- C05 ----------------

type ptEncCase struct {
	P   ptIn   `json:"p"`
	Via string `json:"via"`
}

// viaForms lists operation-produced representations of the same point.
var viaForms = []string{"inplace:Add", "inplace:Subtract", "inplace:Negate", "inplace:MultByCofactor", "inplace:ScalarMult", "inplace:SubtractSecond", "Add(P+R,Negate(R))", "used-receiver:Negate", "used-receiver:Add", "used-receiver:SetExtendedCoordinates", "used-receiver:Set", "used-receiver:ScalarMult", "used-receiver:Subtract", "direct", "Add(P-B,B)", "Subtract(P+B,B)", "Negate(Negate)", "ScalarMult(1)", "VarTimeMultiScalarMult([1])", "Add(P,identity)", "Decode", "MultiScalarMult([1])", "VarTimeDouble(1,P,0)", "Add(P-T,T)"}

// observe calls every read-only accessor of p, so that whatever a tree may
// memoise about a point (an encoding, an affine form, a validity flag) is
// populated before p is used as a receiver or copied.
func observe(p *edwards25519.Point) *edwards25519.Point {
	p.Bytes()
	p.BytesMontgomery()
	p.ExtendedCoordinates()
	p.Equal(p)
	return p
}

func viaPoint(c ptEncCase) *edwards25519.Point {
	pm := c.P.model()
	p := c.P.point()
	B := ref.Base()
	one := mkScalar(big.NewInt(1))
	// receivers that already went through a decode (Z = 1 representation,
	// whatever hints a tree may cache about it) before being overwritten
	if strings.HasPrefix(c.Via, "used-receiver:") {
		ge := ref.Encode(ref.Mul(big.NewInt(7), B))
		r, err := new(edwards25519.Point).SetBytes(ge[:])
		if err != nil {
			return nil
		}
		observe(r)
		switch strings.TrimPrefix(c.Via, "used-receiver:") {
		case "Negate":
			return r.Negate(alpha.MakePoint(ref.Neg(pm), c.P.Form))
		case "Add":
			return r.Add(alpha.MakePoint(ref.Sub(pm, B), c.P.Form), alpha.MakePoint(B, (c.P.Form+3)%8))
		case "Subtract":
			return r.Subtract(alpha.MakePoint(ref.Add(pm, B), c.P.Form), alpha.MakePoint(B, (c.P.Form+5)%8))
		case "SetExtendedCoordinates":
			X, Y, Z, T := p.ExtendedCoordinates()
			if _, err := r.SetExtendedCoordinates(X, Y, Z, T); err != nil {
				return nil
			}
			return r
		case "Set":
			return r.Set(p)
		case "ScalarMult":
			return r.ScalarMult(one, p)
		}
	}
	if strings.HasPrefix(c.Via, "zsparse:") {
		return zsparsePoint(c)
	}
	// results computed in place (receiver aliased to an operand)
	if strings.HasPrefix(c.Via, "inplace:") {
		R := ref.Mul(big.NewInt(13), B)
		rp := alpha.MakePoint(R, 5)
		switch strings.TrimPrefix(c.Via, "inplace:") {
		case "Add":
			x := observe(alpha.MakePoint(ref.Sub(pm, R), c.P.Form))
			return x.Add(x, rp)
		case "Subtract":
			x := observe(alpha.MakePoint(ref.Add(pm, R), c.P.Form))
			return x.Subtract(x, rp)
		case "SubtractSecond":
			x := observe(alpha.MakePoint(ref.Sub(R, pm), c.P.Form))
			return x.Subtract(rp, x)
		case "Negate":
			x := observe(alpha.MakePoint(ref.Neg(pm), c.P.Form))
			return x.Negate(x)
		case "MultByCofactor":
			// P = 8 * (P/8) only in the prime-order part; use x = P + T with 8T = 0 and divide the rest by 8 mod l
			x := alpha.MakePoint(pm, c.P.Form)
			y := observe(new(edwards25519.Point).Set(x))
			y.MultByCofactor(y)
			// bring it back: compare through the group law instead (8P - 7P)
			seven := alpha.MakePoint(ref.Mul(big.NewInt(7), pm), (c.P.Form+2)%8)
			return y.Subtract(y, seven)
		case "ScalarMult":
			x := observe(alpha.MakePoint(pm, c.P.Form))
			return x.ScalarMult(one, x)
		}
	}
	switch c.Via {
	case "Add(P+R,Negate(R))": // the negated operand's T is consumed by the addition
		R := ref.Mul(big.NewInt(11), B)
		return new(edwards25519.Point).Add(alpha.MakePoint(ref.Add(pm, R), c.P.Form), new(edwards25519.Point).Negate(alpha.MakePoint(R, 6)))
	case "direct":
		return p
	case "Add(P-B,B)":
		return new(edwards25519.Point).Add(alpha.MakePoint(ref.Sub(pm, B), c.P.Form), alpha.MakePoint(B, (c.P.Form+3)%8))
	case "Subtract(P+B,B)":
		return new(edwards25519.Point).Subtract(alpha.MakePoint(ref.Add(pm, B), c.P.Form), alpha.MakePoint(B, (c.P.Form+5)%8))
	case "Negate(Negate)":
		r := new(edwards25519.Point).Negate(p)
		return r.Negate(r)
	case "ScalarMult(1)":
		return new(edwards25519.Point).ScalarMult(one, p)
	case "VarTimeMultiScalarMult([1])":
		return new(edwards25519.Point).VarTimeMultiScalarMult([]*edwards25519.Scalar{one}, []*edwards25519.Point{p})
	case "MultiScalarMult([1])":
		return edwards25519.NewIdentityPoint().MultiScalarMult([]*edwards25519.Scalar{one}, []*edwards25519.Point{p})
	case "VarTimeDouble(1,P,0)":
		return new(edwards25519.Point).VarTimeDoubleScalarBaseMult(one, p, edwards25519.NewScalar())
	case "Add(P,identity)":
		return new(edwards25519.Point).Add(p, edwards25519.NewIdentityPoint())
	case "Add(P-T,T)":
		t := ref.Torsion()[3]
		return new(edwards25519.Point).Add(alpha.MakePoint(ref.Sub(pm, t), c.P.Form), alpha.MakePoint(t, (c.P.Form+1)%8))
	case "Decode":
		r, err := new(edwards25519.Point).SetBytes(c.P.Enc)
		if err != nil {
			return nil
		}
		return r
	}
	panic("bad via")
}

var subC05 = core.NewSub("C05/encode", func(w *core.Worker, c ptEncCase) *core.Fail {
	p := viaPoint(c)
	if p == nil {
		return core.Failf("SetBytes rejected the canonical encoding %s", c.P.Enc)
	}
	raw := alpha.PointRaw(p)
	got := p.Bytes()
	if alpha.PointRaw(p) != raw {
		// a representation-only rewrite is not this property's business, but
		// the point must still be the same valid point afterwards
		if f := pointMatches(p, c.P.model()); f != nil {
			return core.Failf("Bytes() changed the point it encodes: %s", f.Msg)
		}
		w.Distinct("bytes-rewrote-representation", []byte{1})
	}
	if !bytes.Equal(got, c.P.Enc) {
		return core.Failf("Bytes() of %s [form %d via %s] = %x", c.P.Enc, c.P.Form, c.Via, got)
	}
	// a result already handed out must survive later calls on other points
	edwards25519.NewGeneratorPoint().Bytes()
	alpha.MakePoint(ref.Torsion()[1], 3).Bytes()
	if !bytes.Equal(got, c.P.Enc) {
		return core.Failf("the slice returned by Bytes() of %s changed to %x after later Bytes() calls", c.P.Enc, got)
	}
	// canonical: y < p
	y := ref.FromLE(got)
	y.SetBit(y, 255, 0)
	if y.Cmp(ref.P) >= 0 {
		return core.Failf("non-canonical y in encoding %x", got)
	}
	q, err := new(edwards25519.Point).SetBytes(got)
	if err != nil {
		return core.Failf("SetBytes(Bytes(P)) rejected %x", got)
	}
	if q.Equal(p) != 1 || !bytes.Equal(q.Bytes(), got) {
		return core.Failf("SetBytes(Bytes(P)) is a different point for %x", got)
	}
	w.Distinct("nontrivial:encodings", got)
	w.Distinct("representations", func() []byte {
		b := make([]byte, 0, 160)
		for _, x := range raw {
			b = append(b, byte(x), byte(x>>8), byte(x>>16), byte(x>>24), byte(x>>32), byte(x>>40), byte(x>>48), byte(x>>56))
		}
		return b
	}())
	return nil
})

func init() { register("C05", "exploration", runC05) }

func runC05(ctx *core.Ctx) {
	ctx.Rule("every point of alphabet P in every injected projective representation (8 forms) and in every operation-produced representation (11 producers: Add, Subtract, Negate, the five scalar multiplications by 1, decode...) -> Bytes() must equal the model encoding byte for byte and round-trip through SetBytes; every accepted string of the C04 decode alphabet (incl. all non-canonical ones) must re-encode canonically (run here on the non-canonical subset); every point with Z stored as each of 62 sparse limb patterns; two-step sequences Bytes(P);Bytes(Q);Bytes(P) (both orders) where Q is a different point whose representation shares one or two stored coordinates with P's. distinct_nontrivial = distinct encodings")
	ctx.Assume("math/big is correct")
	all := pointIns(smoke(ctx), []int{0, 1, 2, 3, 4, 5, 6, 7})
	nv := len(viaForms)
	subC05.Run(ctx, len(all)*nv, func(i int) ptEncCase { return ptEncCase{all[i/nv], viaForms[i%nv]} })
	// every point with Z stored as each sparse limb pattern, and two-step
	// sequences Bytes(P); Bytes(Q) over representations that share stored
	// coordinates (related.go)
	subC05.RunList(ctx, zsparseCases(smoke(ctx)))
	subC05Related.RunList(ctx, relatedCases(smoke(ctx), "Bytes", true))
	// non-canonical accepted inputs re-encode canonically
	var nc []decodeCase
	for d := int64(0); d < 19; d++ {
		for s := 0; s < 2; s++ {
			b := ref.LE32(new(big.Int).Add(ref.P, big.NewInt(d)))
			b[31] |= byte(s) << 7
			nc = append(nc, decodeCase{Hex(b[:])})
		}
	}
	// x = 0 with sign bit: y = 1 and y = -1
	for _, y := range []*big.Int{big.NewInt(1), new(big.Int).Sub(ref.P, big.NewInt(1))} {
		b := ref.LE32(y)
		b[31] |= 0x80
		nc = append(nc, decodeCase{Hex(b[:])})
	}
	subC04.RunList(ctx, nc)
	ctx.Extra("distinct_representations_encoded", ctx.DistinctCount("representations"))
	_ = fmt.Sprint
}
