// Package checks holds one file per property. Every check enumerates a finite,
// rule-generated space completely and compares the real implementation with
// the math/big reference model.
package checks

import (
	"bytes"
	"fmt"
	"math/big"
	"os"

	"filippo.io/edwards25519"
	"filippo.io/edwards25519/field"
	"verif/harness/alpha"
	"verif/harness/core"
	"verif/harness/ref"
)

type Hex = core.Hex

// VerifDir is where evidence/replays live (set by main).
var VerifDir = "/verif"

// Registry maps property ids to their check.
var Registry = map[string]struct {
	Level string
	Run   func(ctx *core.Ctx)
}{}

func register(id, level string, run func(ctx *core.Ctx)) {
	Registry[id] = struct {
		Level string
		Run   func(ctx *core.Ctx)
	}{level, run}
}

func le32(v *big.Int) Hex { b := ref.LE32(v); return Hex(b[:]) }

func scalarOf(h Hex) *edwards25519.Scalar {
	s, err := new(edwards25519.Scalar).SetCanonicalBytes(h)
	if err != nil {
		panic("harness: SetCanonicalBytes rejected alphabet scalar " + h.String())
	}
	return s
}

// mkScalar builds a Scalar from an integer < l without relying on
// SetCanonicalBytes alone: if that rejects a reduced value the caller sees a
// failure in the C08 check; other checks then fall back to SetUniformBytes.
func mkScalar(v *big.Int) *edwards25519.Scalar {
	b := ref.LE32(ref.SRed(v))
	if s, err := new(edwards25519.Scalar).SetCanonicalBytes(b[:]); err == nil {
		return s
	}
	var w [64]byte
	copy(w[:], b[:])
	s, err := new(edwards25519.Scalar).SetUniformBytes(w[:])
	if err != nil {
		panic("harness: cannot construct scalar")
	}
	return s
}

func sameBytes(a, b []byte) bool { return bytes.Equal(a, b) }

func elemBytesHex(e *field.Element) Hex { return Hex(e.Bytes()) }

func fmtPt(p ref.Pt) string { e := ref.Encode(p); return fmt.Sprintf("%x", e[:]) }

// pointBytesModel checks p.Bytes() and ExtendedCoordinates against the model.
func pointMatches(p *edwards25519.Point, want ref.Pt) *core.Fail {
	got := p.Bytes()
	exp := ref.Encode(want)
	if !bytes.Equal(got, exp[:]) {
		return core.Failf("Bytes()=%x, model=%x", got, exp[:])
	}
	pt, X, Y, Z, T, ok := alpha.PointModel(p)
	if !ok {
		return core.Failf("Z = 0 in result (X=%x Y=%x T=%x)", X, Y, T)
	}
	if !pt.Equal(want) {
		return core.Failf("ExtendedCoordinates give %s, model %s", pt, want)
	}
	if !ref.ExtendedValid(X, Y, Z, T) {
		return core.Failf("extended coordinates invalid: X=%x Y=%x Z=%x T=%x", X, Y, Z, T)
	}
	return nil
}

// Three sizes: smoke (VERIF_SMOKE=1, for development only), quick (the check
// run on every change) and thorough. Most enumerations are so cheap that the
// quick tier already uses what was designed as the thorough size; sz gives the
// thorough tier a larger one where it exists.
func smoke(ctx *core.Ctx) bool { return ctx.Quick() && os.Getenv("VERIF_SMOKE") != "" }

func sz(ctx *core.Ctx, s, m, l int) int {
	switch {
	case smoke(ctx):
		return s
	case ctx.Quick():
		return m
	}
	return l
}

// tierN: smoke size / normal size (both tiers).
func tierN(ctx *core.Ctx, small, normal int) int { return sz(ctx, small, normal, normal) }
