// asmdrv drives the dispatched field multiply / square on corner limb
// vectors of the closed box, in fixed buffers, so that a gdb single-step
// tracer (tools/asmtrace.py) can record (pc, effective addresses) per call.
package main

import (
	"fmt"
	"os"
	"strconv"
	"unsafe"

	"filippo.io/edwards25519/field"
	"verif/harness/alpha"
)

var a, b, out field.Element // fixed buffers: identical addresses for every call
var sink uint64

func put(e *field.Element, l [5]uint64) { *(*[5]uint64)(unsafe.Pointer(e)) = l }

//go:noinline
func mul() { out.Multiply(&a, &b) }

//go:noinline
func sq() { out.Square(&a) }

func main() {
	n, _ := strconv.Atoi(os.Args[1])
	box := alpha.DefaultBox
	corner := func(idx int) [5]uint64 {
		var l [5]uint64
		for i := 0; i < 5; i++ {
			switch idx % 3 {
			case 1:
				l[i] = alpha.Mask51
			case 2:
				l[i] = box[i]
			}
			idx /= 3
		}
		return l
	}
	for i := 0; i < n; i++ {
		put(&a, corner(i*7%243))
		put(&b, corner((i*11+242)%243))
		mul()
		sink += *(*uint64)(unsafe.Pointer(&out))
		sq()
		sink += *(*uint64)(unsafe.Pointer(&out))
	}
	fmt.Println("done", n, sink)
}
