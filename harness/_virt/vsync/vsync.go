// Package vsync replaces the standard sync package in the scheduling build
// (injected with -overlay; not part of the repository). Each operation is a
// scheduling point of the controlled scheduler and a happens-before edge.
// Once follows the structure of the standard library's implementation
// (atomic fast path, mutex, re-check, store after f).
package vsync

import (
	"filippo.io/edwards25519/vsched"
	"filippo.io/edwards25519/vsync/atomic"
)

type Mutex struct {
	locked bool
	vc     vsched.VC
}

func (m *Mutex) Lock() {
	vsched.Point("lock", "mutex")
	vsched.Block("lock", "mutex", func() bool { return m.locked })
	m.locked = true
	vsched.Acquire(&m.vc)
}

func (m *Mutex) TryLock() bool {
	vsched.Point("trylock", "mutex")
	if m.locked {
		return false
	}
	m.locked = true
	vsched.Acquire(&m.vc)
	return true
}

func (m *Mutex) Unlock() {
	vsched.Point("unlock", "mutex")
	if !m.locked {
		panic("vsync: unlock of unlocked mutex")
	}
	vsched.Release(&m.vc)
	m.locked = false
}

type Locker interface {
	Lock()
	Unlock()
}

// RWMutex is modelled as a plain mutex (coarser, still sound for exclusion).
type RWMutex struct{ m Mutex }

func (rw *RWMutex) Lock()    { rw.m.Lock() }
func (rw *RWMutex) Unlock()  { rw.m.Unlock() }
func (rw *RWMutex) RLock()   { rw.m.Lock() }
func (rw *RWMutex) RUnlock() { rw.m.Unlock() }

type Once struct {
	done atomic.Uint32
	m    Mutex
}

func (o *Once) Do(f func()) {
	if o.done.Load() == 0 {
		o.doSlow(f)
	}
}

func (o *Once) doSlow(f func()) {
	o.m.Lock()
	defer o.m.Unlock()
	if o.done.Load() == 0 {
		defer o.done.Store(1)
		f()
	}
}

// Once objects hidden inside OnceFunc / OnceValue closures cannot be reached
// by the generated snapshot of package-level variables; they are registered
// here so that the explorer can put them back into the cold state.
var registered []*Once

// ResetRegistered returns every closure-held Once to "not yet run".
func ResetRegistered() {
	for _, o := range registered {
		*o = Once{}
	}
}

func OnceFunc(f func()) func() {
	once := new(Once)
	registered = append(registered, once)
	return func() { once.Do(f) }
}

func OnceValue[T any](f func() T) func() T {
	once := new(Once)
	registered = append(registered, once)
	var v T
	return func() T {
		once.Do(func() { v = f() })
		return v
	}
}

func OnceValues[T1, T2 any](f func() (T1, T2)) func() (T1, T2) {
	once := new(Once)
	registered = append(registered, once)
	var v1 T1
	var v2 T2
	return func() (T1, T2) {
		once.Do(func() { v1, v2 = f() })
		return v1, v2
	}
}

// Pool: a mutex-protected free list (every Get/Put is a scheduling point and
// a happens-before edge, as for the real sync.Pool).
type Pool struct {
	New   func() any
	m     Mutex
	items []any
}

func (p *Pool) Get() any {
	p.m.Lock()
	defer p.m.Unlock()
	if n := len(p.items); n > 0 {
		x := p.items[n-1]
		p.items = p.items[:n-1]
		return x
	}
	if p.New != nil {
		return p.New()
	}
	return nil
}

func (p *Pool) Put(x any) {
	p.m.Lock()
	defer p.m.Unlock()
	p.items = append(p.items, x)
}

type WaitGroup struct {
	n  int
	vc vsched.VC
}

func (wg *WaitGroup) Add(d int) {
	vsched.Point("wg-add", "wg")
	wg.n += d
	if d < 0 {
		vsched.Release(&wg.vc)
	}
}
func (wg *WaitGroup) Done() { wg.Add(-1) }
func (wg *WaitGroup) Wait() {
	vsched.Point("wg-wait", "wg")
	vsched.Block("wg-wait", "wg", func() bool { return wg.n > 0 })
	vsched.Acquire(&wg.vc)
}
