//go:build ctbuild

// ctcheck decides C03 on a leakage-trace build: ./check generates instrumented
// copies of the library sources (instr -mode ct) and builds this binary with
// them substituted through `go build -overlay`.
package main

import "verif/harness/hmain"

func main() { hmain.Main() }
