package vsched

import (
	"crypto/sha256"
	"encoding/binary"
	"reflect"
	"sort"
	"strings"
)

// HashGlobals hashes the contents of package-level variables (given as
// pointers), skipping the internals of vsync objects (clocks differ between
// schedules by construction).
func HashGlobals(ptrs map[string]any) [32]byte { return hashGlobals(ptrs, true) }

// HashGlobalsFull includes the internals of the sync shim's objects (locked
// flags, once states, clocks): the complete memory state, for state pruning.
func HashGlobalsFull(ptrs map[string]any) [32]byte { return hashGlobals(ptrs, false) }

func hashGlobals(ptrs map[string]any, skipSync bool) [32]byte {
	h := sha256.New()
	names := make([]string, 0, len(ptrs))
	for n := range ptrs {
		names = append(names, n)
	}
	sort.Strings(names)
	var buf [8]byte
	var walk func(v reflect.Value, depth int)
	walk = func(v reflect.Value, depth int) {
		if depth > 8 {
			return
		}
		t := v.Type()
		if p := t.PkgPath(); skipSync && (strings.HasSuffix(p, "/vsync") || strings.HasSuffix(p, "/vsync/atomic") || strings.HasSuffix(p, "/vsched")) {
			return
		}
		switch v.Kind() {
		case reflect.Bool:
			if v.Bool() {
				h.Write([]byte{1})
			} else {
				h.Write([]byte{0})
			}
		case reflect.Int, reflect.Int8, reflect.Int16, reflect.Int32, reflect.Int64:
			binary.LittleEndian.PutUint64(buf[:], uint64(v.Int()))
			h.Write(buf[:])
		case reflect.Uint, reflect.Uint8, reflect.Uint16, reflect.Uint32, reflect.Uint64, reflect.Uintptr:
			binary.LittleEndian.PutUint64(buf[:], v.Uint())
			h.Write(buf[:])
		case reflect.Array, reflect.Slice:
			for i := 0; i < v.Len(); i++ {
				walk(v.Index(i), depth+1)
			}
		case reflect.Struct:
			for i := 0; i < v.NumField(); i++ {
				walk(v.Field(i), depth+1)
			}
		case reflect.Pointer:
			if v.IsNil() {
				h.Write([]byte{0xfe})
			} else {
				walk(v.Elem(), depth+1)
			}
		case reflect.String:
			h.Write([]byte(v.String()))
		}
	}
	for _, n := range names {
		h.Write([]byte(n))
		walk(reflect.ValueOf(ptrs[n]).Elem(), 0)
	}
	var out [32]byte
	copy(out[:], h.Sum(nil))
	return out
}
