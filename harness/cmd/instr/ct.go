package main

func instrumentCT(p *pkgInfo, out string, overlay map[string]string, report map[string]any) {
	die("ct mode not built yet")
}
