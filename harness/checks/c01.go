package checks

import (
	"fmt"
	"math/big"
	"strings"

	"filippo.io/edwards25519"
	"filippo.io/edwards25519/field"
	"verif/harness/alpha"
	"verif/harness/core"
	"verif/harness/ref"
)

// C01 - scalar multiplication is the exact integer multiple, receiver-independent.

// ---- recoder transducer models (written from the definitions) ----

// radix16Model: digits d_0..d_63 with sum d_i 16^i = k, d_i in [-8,8) for
// i < 63. Returns the digits and the (position, carry-in, nibble) transitions.
type r16Trans struct{ Pos, Carry, Nibble int }

func radix16Model(k *big.Int) (digits [64]int, trans [64]r16Trans) {
	carry := 0
	for i := 0; i < 64; i++ {
		n := int(new(big.Int).And(new(big.Int).Rsh(k, uint(4*i)), big.NewInt(15)).Int64())
		trans[i] = r16Trans{i, carry, n}
		d := n + carry
		carry = 0
		if i < 63 && d >= 8 {
			d -= 16
			carry = 1
		}
		digits[i] = d
	}
	return
}

// radix16Witnesses: BFS over the transducer's transitions; one witness scalar
// < l per reachable (position, carry-in, nibble).
func radix16Witnesses() (wit []*big.Int, states, transitions int) {
	seenT := map[r16Trans]bool{}
	seenS := map[[2]int]bool{}
	for pos := 0; pos < 64; pos++ {
		for carry := 0; carry < 2; carry++ {
			for n := 0; n < 16; n++ {
				k := new(big.Int).Lsh(big.NewInt(int64(n)), uint(4*pos))
				if carry == 1 {
					if pos == 0 {
						continue
					}
					k.Add(k, new(big.Int).Lsh(big.NewInt(8), uint(4*(pos-1))))
				}
				if k.Cmp(ref.L) >= 0 {
					continue // not a scalar: transition unreachable
				}
				_, tr := radix16Model(k)
				if tr[pos] != (r16Trans{pos, carry, n}) {
					panic("radix-16 witness does not exercise its transition")
				}
				if !seenT[tr[pos]] {
					seenT[tr[pos]] = true
					wit = append(wit, k)
				}
				seenS[[2]int{pos, carry}] = true
			}
		}
	}
	// plus fully saturated carry chains
	for _, nib := range []int64{7, 8, 15} {
		k := new(big.Int)
		for i := 0; i < 62; i++ {
			k.Lsh(k, 4)
			k.Add(k, big.NewInt(nib))
		}
		wit = append(wit, k)
	}
	wit = append(wit, new(big.Int).Sub(ref.L, big.NewInt(1)))
	return wit, len(seenS), len(seenT)
}

// nafContract checks the properties the multiplication loops rely on.
func nafContract(d [256]int8, w uint, k *big.Int) string {
	sum := new(big.Int)
	for i := 255; i >= 0; i-- {
		sum.Lsh(sum, 1)
		sum.Add(sum, big.NewInt(int64(d[i])))
	}
	if sum.Cmp(k) != 0 {
		return "sum d_i 2^i != k"
	}
	lim := 1 << (w - 1)
	for i, x := range d {
		if x == 0 {
			continue
		}
		if x&1 == 0 {
			return fmt.Sprintf("even non-zero digit %d at %d", x, i)
		}
		if int(x) >= lim || int(x) <= -lim {
			return fmt.Sprintf("digit %d at %d out of range for w=%d", x, i, w)
		}
	}
	return ""
}

type nafTrans struct{ Pos, Carry, Bits int }

// nafWitnesses: one witness per (position, carry-in, w-bit window content).
func nafWitnesses(w uint, positions []int) (wit []*big.Int, transitions int) {
	for _, pos := range positions {
		for carry := 0; carry < 2; carry++ {
			for bits := 0; bits < 1<<w; bits++ {
				k := new(big.Int).Lsh(big.NewInt(int64(bits)), uint(pos))
				if carry == 1 {
					if pos < int(w) {
						continue
					}
					// an odd window with its top bit set, w places below, leaves carry 1
					k.Add(k, new(big.Int).Lsh(big.NewInt(int64(1<<(w-1)|1)), uint(pos-int(w))))
				}
				if k.Cmp(ref.L) >= 0 {
					continue
				}
				wit = append(wit, k)
				transitions++
			}
		}
	}
	return
}

// ---- public-API witness replay ----

type smCase struct {
	Routine string `json:"routine"`
	K       Hex    `json:"k"`
	K2      Hex    `json:"k2,omitempty"`
	Q       ptIn   `json:"q"`
	Recv    int    `json:"recv"` // 0 zero value, 1 identity, 2 generator, 3 aliased to Q
}

func smRecv(kind int, q *edwards25519.Point) *edwards25519.Point {
	switch kind {
	case 0:
		return new(edwards25519.Point)
	case 1:
		return edwards25519.NewIdentityPoint()
	case 2:
		return alpha.MakePoint(ref.Mul(big.NewInt(3), ref.Base()), 5)
	default:
		return q
	}
}

var subC01Mult = core.NewSub("C01/mult", func(w *core.Worker, c smCase) *core.Fail {
	q := c.Q.point()
	qm := c.Q.model()
	k := scalarOf(c.K)
	kv := ref.FromLE(c.K)
	recv := smRecv(c.Recv, q)
	var ret *edwards25519.Point
	var want ref.Pt
	switch c.Routine {
	case "ScalarMult":
		ret, want = recv.ScalarMult(k, q), ref.Mul(kv, qm)
	case "ScalarBaseMult":
		ret, want = recv.ScalarBaseMult(k), ref.Mul(kv, ref.Base())
	case "MultiScalarMult":
		ret, want = recv.MultiScalarMult([]*edwards25519.Scalar{k}, []*edwards25519.Point{q}), ref.Mul(kv, qm)
	case "VarTimeMultiScalarMult":
		ret, want = recv.VarTimeMultiScalarMult([]*edwards25519.Scalar{k}, []*edwards25519.Point{q}), ref.Mul(kv, qm)
	case "VarTimeDoubleScalarBaseMult":
		k2 := scalarOf(c.K2)
		ret = recv.VarTimeDoubleScalarBaseMult(k, q, k2)
		want = ref.Add(ref.Mul(kv, qm), ref.Mul(ref.FromLE(c.K2), ref.Base()))
	case "MSM2", "VTMSM2": // two terms: k*Q + k2*(Q+B)
		k2 := scalarOf(c.K2)
		q2m := ref.Add(qm, ref.Base())
		q2 := alpha.MakePoint(q2m, (c.Q.Form+2)%8)
		sc := []*edwards25519.Scalar{k, k2}
		ps := []*edwards25519.Point{q, q2}
		if c.Routine == "MSM2" {
			ret = recv.MultiScalarMult(sc, ps)
		} else {
			ret = recv.VarTimeMultiScalarMult(sc, ps)
		}
		want = ref.Add(ref.Mul(kv, qm), ref.Mul(ref.FromLE(c.K2), q2m))
	default:
		panic("bad routine")
	}
	if ret != recv {
		return core.Failf("%s did not return the receiver", c.Routine)
	}
	e := ref.Encode(want)
	w.Distinct("nontrivial:results", e[:])
	if f := pointMatches(recv, want); f != nil {
		return core.Failf("%s(k=%s, Q=%s form %d, recv kind %d): %s", c.Routine, c.K, c.Q.Enc, c.Q.Form, c.Recv, f.Msg)
	}
	return nil
})

// ---- shim-level sub-checks (coverage accounting; contract, not digit strings) ----

type digitCase struct {
	K Hex  `json:"k"`
	W uint `json:"w"` // 0 = radix 16
}

var subC01Digits = core.NewSub("C01/recoder-contract", func(wk *core.Worker, c digitCase) *core.Fail {
	s := scalarOf(c.K)
	k := ref.FromLE(c.K)
	if c.W == 0 {
		d := shimRadix16(s)
		sum := new(big.Int)
		for i := 63; i >= 0; i-- {
			sum.Lsh(sum, 4)
			sum.Add(sum, big.NewInt(int64(d[i])))
			if d[i] < -8 || d[i] > 8 {
				return core.Failf("radix-16 digit %d at %d outside [-8,8] for k=%s (the 8-entry table cannot serve it)", d[i], i, c.K)
			}
		}
		if sum.Cmp(k) != 0 {
			return core.Failf("radix-16 digits of k=%s sum to %x", c.K, sum)
		}
		wk.Distinct("digit-strings", []byte(fmt.Sprint(d)))
		return nil
	}
	d := shimNAF(s, c.W)
	if msg := nafContract(d, c.W, k); msg != "" {
		return core.Failf("NAF(w=%d) of k=%s: %s", c.W, c.K, msg)
	}
	wk.Distinct("digit-strings", []byte(fmt.Sprint(c.W, d)))
	return nil
})

type tableCase struct {
	Kind string `json:"kind"`
	Q    ptIn   `json:"q"`
	I    int    `json:"i"`
	J    int    `json:"j"`
}

func cachedToPoint(yplusx, yminusx, z, t2d *field.Element) (ref.Pt, bool) {
	yp, ym := alpha.ElemValue(yplusx), alpha.ElemValue(yminusx)
	zv := big.NewInt(1)
	if z != nil {
		zv = alpha.ElemValue(z)
	}
	if zv.Sign() == 0 {
		return ref.Pt{}, false
	}
	half := ref.FInv(big.NewInt(2))
	y := ref.FDiv(ref.FMul(ref.FAdd(yp, ym), half), zv)
	x := ref.FDiv(ref.FMul(ref.FSub(yp, ym), half), zv)
	t := ref.FDiv(alpha.ElemValue(t2d), zv)
	if t.Cmp(ref.FMul(ref.FMul(big.NewInt(2), ref.D), ref.FMul(x, y))) != 0 {
		return ref.Pt{}, false
	}
	return ref.Pt{X: x, Y: y}, true
}

var subC01Tables = core.NewSub("C01/tables", func(wk *core.Worker, c tableCase) *core.Fail {
	var got ref.Pt
	var ok bool
	var want ref.Pt
	switch c.Kind {
	case "basepoint": // entry (i,j) = [(j+1) * 256^i]B
		e := shimBaseEntry(c.I, c.J)
		got, ok = cachedToPoint(&e[0], &e[1], nil, &e[2])
		k := new(big.Int).Lsh(big.NewInt(int64(c.J+1)), uint(8*c.I))
		want = ref.Mul(k, ref.Base())
	case "basepoint-select": // digit J-8 of table I
		e := shimBaseSelect(c.I, int8(c.J-8))
		got, ok = cachedToPoint(&e[0], &e[1], nil, &e[2])
		d := int64(c.J - 8)
		k := new(big.Int).Lsh(big.NewInt(abs64(d)), uint(8*c.I))
		want = ref.Mul(k, ref.Base())
		if d < 0 {
			want = ref.Neg(want)
		}
	case "basepoint-naf": // entry j = [2j+1]B
		e := shimBaseNafEntry(c.J)
		got, ok = cachedToPoint(&e[0], &e[1], nil, &e[2])
		want = ref.Mul(big.NewInt(int64(2*c.J+1)), ref.Base())
	case "proj": // [j+1]Q
		t := shimProjTable(c.Q.point())
		e := t[c.J]
		got, ok = cachedToPoint(&e[0], &e[1], &e[2], &e[3])
		want = ref.Mul(big.NewInt(int64(c.J+1)), c.Q.model())
	case "naf5": // [2j+1]Q
		t := shimNafTable5(c.Q.point())
		e := t[c.J]
		got, ok = cachedToPoint(&e[0], &e[1], &e[2], &e[3])
		want = ref.Mul(big.NewInt(int64(2*c.J+1)), c.Q.model())
	case "proj-select": // digit J-8
		e := shimProjSelect(c.Q.point(), int8(c.J-8))
		got, ok = cachedToPoint(&e[0], &e[1], &e[2], &e[3])
		d := int64(c.J - 8)
		want = ref.Mul(big.NewInt(abs64(d)), c.Q.model())
		if d < 0 {
			want = ref.Neg(want)
		}
	default:
		panic("bad kind")
	}
	if !ok {
		return core.Failf("table entry %s[%d][%d] is not a consistent cached point", c.Kind, c.I, c.J)
	}
	if !got.Equal(want) {
		return core.Failf("table entry %s[%d][%d] of %s is %s want %s", c.Kind, c.I, c.J, c.Q.Enc, got, want)
	}
	e := ref.Encode(got)
	wk.Distinct("table-points", e[:])
	return nil
})

func abs64(x int64) int64 {
	if x < 0 {
		return -x
	}
	return x
}

// many terms: term counts around every plausible internal limit (fixed-size
// scratch, 8-bit counters), with the receiver aliased to a late term
type manyCase struct {
	Routine string `json:"routine"`
	N       int    `json:"n"`
	Scalars string `json:"scalars"` // "one", "l-1", "alternating", "generic"
	Points  string `json:"points"`  // "B", "distinct", "mixed", "same-pointer"
	RecvAt  int    `json:"recv_at"` // -1: fresh receiver; i: the receiver is the point of term i
}

var subC01Many = core.NewSub("C01/many-terms", manyTerms)

// C12 runs the same calls over size classes and scalar shapes of its own (results of multi-scalar
// calls of every size class must be valid points; pointMatches includes Z != 0, the curve equation
// and XY = ZT).
var subC12Many = core.NewSub("C12/many-terms", manyTerms)

func manyTerms(w *core.Worker, c manyCase) *core.Fail {
	B := ref.Base()
	T := ref.Torsion()
	var sc []*edwards25519.Scalar
	var ps []*edwards25519.Point
	var same *edwards25519.Point
	want := ref.Identity()
	for i := 0; i < c.N; i++ {
		var kv *big.Int
		switch c.Scalars {
		case "one":
			kv = big.NewInt(1)
		case "l-1":
			kv = new(big.Int).Sub(ref.L, big.NewInt(1))
		case "small": // all below 2^64: every scalar has zero bytes at the same (high) positions
			kv = big.NewInt(int64(i*i*7919 + 3))
		case "sparse": // generic, with bytes 7 and 20 cleared in every scalar
			b := ref.LE32(ref.SRed(new(big.Int).Add(alpha.GenericScalar, big.NewInt(int64(i*i)))))
			b[7], b[20] = 0, 0
			kv = ref.FromLE(b[:])
		case "zero":
			kv = big.NewInt(0)
		case "alternating":
			kv = []*big.Int{big.NewInt(1), new(big.Int).Sub(ref.L, big.NewInt(1)), big.NewInt(0), big.NewInt(8)}[i%4]
		default:
			kv = ref.SRed(new(big.Int).Add(alpha.GenericScalar, big.NewInt(int64(i*i))))
		}
		var pm ref.Pt
		switch c.Points {
		case "B", "same-pointer":
			pm = B
		case "same-pointer-mixed": // one pointer in every slot, a point of order 8l: scalars folded mod l show
			pm = ref.Add(T[1], B)
		case "two-pointers-mixed": // two pointers alternating, orders 8l and 4l
			pm = []ref.Pt{ref.Add(T[1], B), ref.Add(T[2], ref.Mul(big.NewInt(3), B))}[i%2]
		case "distinct":
			pm = ref.Mul(big.NewInt(int64(i+2)), B)
		default:
			pm = ref.Add(T[i%8], ref.Mul(big.NewInt(int64(i%5+1)), B))
		}
		sc = append(sc, mkScalar(kv))
		if c.Points == "same-pointer" || c.Points == "same-pointer-mixed" {
			if same == nil {
				same = alpha.MakePoint(pm, 6)
			}
			ps = append(ps, same)
		} else if c.Points == "two-pointers-mixed" {
			if i < 2 {
				ps = append(ps, alpha.MakePoint(pm, 6-3*i))
			} else {
				ps = append(ps, ps[i%2])
			}
		} else {
			ps = append(ps, alpha.MakePoint(pm, []int{0, 6, 3}[i%3]))
		}
		want = ref.Add(want, ref.Mul(kv, pm))
	}
	recv := new(edwards25519.Point)
	if c.RecvAt >= 0 && c.RecvAt < c.N {
		recv = ps[c.RecvAt]
	}
	var ret *edwards25519.Point
	if c.Routine == "MultiScalarMult" {
		ret = recv.MultiScalarMult(sc, ps)
	} else {
		ret = recv.VarTimeMultiScalarMult(sc, ps)
	}
	if ret != recv {
		return core.Failf("%s did not return the receiver", c.Routine)
	}
	e := ref.Encode(want)
	w.Distinct("nontrivial:results", e[:])
	if f := pointMatches(recv, want); f != nil {
		return core.Failf("%s with %d terms (scalars %s, points %s, receiver at term %d): %s", c.Routine, c.N, c.Scalars, c.Points, c.RecvAt, f.Msg)
	}
	return nil
}

func init() { register("C01", "model_checking", runC01) }

func runC01(ctx *core.Ctx) {
	ctx.Rule("(1) recoder transducers: BFS over (position, carry, window) of signed radix-16, NAF-5 and NAF-8 written from their definitions; one witness scalar per reachable transition; every witness replayed on the implementation through the public multiplication routines against [k]Q in math/big (and, via the overlay shim, against the digit contract); (2) every lookup-table entry and every (table, digit) selection compared with the model; (3) all of alphabet S x points x receivers {zero value, identity, unrelated point, aliased} for the five routines; (4) explicit-state BFS of the multiplication family over the 3-register machine (every receiver state and aliasing choice, term counts 0..3). distinct_nontrivial = distinct result points")
	ctx.Assume("math/big is correct", "scalars outside alphabet S and the transition witnesses, and points outside alphabet P, are not decided")
	pts := alpha.Points(true)
	var qs []ptIn
	for i, np := range pts {
		qs = append(qs, ptOf(np, []int{0, 6, 5, 3, 7}[i%5]))
	}
	if ctx.Quick() {
		var sel []ptIn
		for i, q := range qs {
			if i%3 == 0 {
				sel = append(sel, q)
			}
		}
		qs = sel
	}
	// (1) radix-16
	wit16, st16, tr16 := radix16Witnesses()
	ctx.AddStates(int64(st16))
	ctx.AddTransitions(int64(tr16))
	var cases []smCase
	for _, k := range wit16 {
		kh := le32(k)
		cases = append(cases, smCase{Routine: "ScalarBaseMult", K: kh, Q: qs[0], Recv: len(cases) % 3})
		for qi, q := range qs {
			cases = append(cases, smCase{Routine: "ScalarMult", K: kh, Q: q, Recv: (qi + len(cases)) % 4})
			cases = append(cases, smCase{Routine: "MultiScalarMult", K: kh, Q: q, Recv: (qi + len(cases)) % 4})
		}
	}
	// pairs of adjacent nibbles at every position (carry chains, digit pairs)
	var pairW []*big.Int
	for pos := 0; pos < 62; pos++ {
		for ab := 0; ab < 256; ab++ {
			if smoke(ctx) && (pos%7 != 0 || ab%5 != 0) {
				continue
			}
			k := new(big.Int).Lsh(big.NewInt(int64(ab)), uint(4*pos))
			if k.Cmp(ref.L) < 0 {
				pairW = append(pairW, k)
			}
		}
	}
	for i, k := range pairW {
		kh := le32(k)
		q := qs[i%len(qs)]
		cases = append(cases, smCase{Routine: "ScalarMult", K: kh, Q: q, Recv: i % 4})
		cases = append(cases, smCase{Routine: "ScalarBaseMult", K: kh, Q: qs[0], Recv: i % 3})
		if i%4 == 0 {
			cases = append(cases, smCase{Routine: "MultiScalarMult", K: kh, Q: q, Recv: i % 4})
		}
	}
	ctx.Extra("radix16_adjacent_nibble_pair_witnesses", len(pairW))
	ctx.AddTraces(int64(len(wit16)))
	// NAF witnesses
	var pos5, pos8 []int
	for p := 0; p < 256; p++ {
		pos5 = append(pos5, p)
		if !smoke(ctx) || p < 20 || p%16 < 2 || p > 236 {
			pos8 = append(pos8, p)
		}
	}
	wit5, tr5 := nafWitnesses(5, pos5)
	wit8, tr8 := nafWitnesses(8, pos8)
	ctx.AddStates(int64(2 * (len(pos5) + len(pos8))))
	ctx.AddTransitions(int64(tr5 + tr8))
	ctx.AddTraces(int64(len(wit5) + len(wit8)))
	ctx.Extra("recoder_models", map[string]any{
		"radix16": map[string]int{"states": st16, "transitions": tr16, "witnesses": len(wit16)},
		"naf5":    map[string]int{"positions": len(pos5), "transitions": tr5, "witnesses": len(wit5)},
		"naf8":    map[string]int{"positions": len(pos8), "transitions": tr8, "witnesses": len(wit8)},
	})
	for i, b := range wit8 {
		a := wit5[i%len(wit5)]
		q := qs[i%len(qs)]
		cases = append(cases, smCase{Routine: "VarTimeDoubleScalarBaseMult", K: le32(a), K2: le32(b), Q: q, Recv: i % 4})
	}
	for i, a := range wit5 {
		q := qs[i%len(qs)]
		cases = append(cases, smCase{Routine: "VarTimeMultiScalarMult", K: le32(a), Q: q, Recv: i % 4})
		if i%8 == 0 {
			cases = append(cases, smCase{Routine: "VarTimeDoubleScalarBaseMult", K: le32(a), K2: le32(wit5[(i+1)%len(wit5)]), Q: q, Recv: i % 4})
		}
	}
	// (3) alphabet S x points x receivers
	S := alpha.Scalars(ctx.Quick())
	for i, k := range S {
		kh := le32(k)
		k2 := le32(S[(i*7+3)%len(S)])
		for qi, q := range qs {
			if (i+qi)%sz(ctx, 3, 3, 1) != 0 {
				continue
			}
			for recv := 0; recv < 4; recv++ {
				for _, r := range []string{"ScalarMult", "MultiScalarMult", "VarTimeMultiScalarMult", "VarTimeDoubleScalarBaseMult", "MSM2", "VTMSM2"} {
					cases = append(cases, smCase{Routine: r, K: kh, K2: k2, Q: q, Recv: recv})
				}
			}
		}
		for recv := 0; recv < 3; recv++ {
			cases = append(cases, smCase{Routine: "ScalarBaseMult", K: kh, Q: qs[0], Recv: recv})
		}
	}
	subC01Mult.RunList(ctx, cases)
	var mc []manyCase
	ns := []int{4, 5, 6, 7, 8, 9, 10, 12, 15, 16, 17, 20, 24, 31, 32, 33, 48, 63, 64, 65, 100, 127, 128, 129, 190, 200, 255, 256, 257}
	if !ctx.Quick() {
		ns = append(ns, 511, 512, 513, 1024)
	}
	for _, r := range []string{"MultiScalarMult", "VarTimeMultiScalarMult"} {
		for _, n := range ns {
			for si, sp := range []string{"one", "l-1", "alternating", "generic"} {
				for pi, pp := range []string{"B", "distinct", "mixed", "same-pointer", "same-pointer-mixed", "two-pointers-mixed"} {
					if n > 64 && (si+pi)%2 == 1 && ctx.Quick() {
						continue
					}
					mc = append(mc, manyCase{r, n, sp, pp, -1})
					if !strings.Contains(pp, "pointer") {
						mc = append(mc, manyCase{r, n, sp, pp, n - 1}, manyCase{r, n, sp, pp, n / 2})
						if n > 8 {
							mc = append(mc, manyCase{r, n, sp, pp, 8})
						}
					} else {
						mc = append(mc, manyCase{r, n, sp, pp, 0})
					}
				}
			}
		}
	}
	subC01Many.RunList(ctx, mc)

	// shim-level
	if shimAvailable {
		var dc []digitCase
		for _, k := range wit16 {
			dc = append(dc, digitCase{le32(k), 0})
		}
		for _, k := range S {
			dc = append(dc, digitCase{le32(k), 0}, digitCase{le32(k), 5}, digitCase{le32(k), 8})
		}
		for _, k := range wit5 {
			dc = append(dc, digitCase{le32(k), 5})
		}
		for _, k := range wit8 {
			dc = append(dc, digitCase{le32(k), 8})
		}
		subC01Digits.RunList(ctx, dc)
		var tc []tableCase
		for i := 0; i < 32; i++ {
			for j := 0; j < 8; j++ {
				tc = append(tc, tableCase{Kind: "basepoint", I: i, J: j})
			}
			for j := 0; j <= 16; j++ {
				tc = append(tc, tableCase{Kind: "basepoint-select", I: i, J: j})
			}
		}
		for j := 0; j < 64; j++ {
			tc = append(tc, tableCase{Kind: "basepoint-naf", J: j})
		}
		for _, q := range pointIns(ctx.Quick(), []int{0, 6, 7}) {
			for j := 0; j < 8; j++ {
				tc = append(tc, tableCase{Kind: "proj", Q: q, J: j}, tableCase{Kind: "naf5", Q: q, J: j})
			}
			for j := 0; j <= 16; j++ {
				tc = append(tc, tableCase{Kind: "proj-select", Q: q, J: j})
			}
		}
		subC01Tables.RunList(ctx, tc)
	} else {
		ctx.Note("in-package shim unavailable on this tree: recoder-contract and table sub-checks skipped (public-API witness replay still decides)")
	}

	// (4) register machine, multiplication family
	// the reduced machine chains calls (a call with more terms followed by one
	// with fewer, a used receiver feeding the next call) inside one replayable history
	if ctx.Quick() {
		c01Full1.BFS(ctx, 1, 2_000_000)
		c01Reduced.BFS(ctx, 2, 2_000_000)
	} else {
		c01Full1.BFS(ctx, 1, 2_000_000)
		c01Full.BFS(ctx, 2, 6_000_000)
		c01Reduced.BFS(ctx, 3, 8_000_000)
	}
	pmReportReached(ctx)
}
