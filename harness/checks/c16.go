package checks

import (
	"bytes"
	"math/big"

	"filippo.io/edwards25519/field"
	"verif/harness/alpha"
	"verif/harness/core"
	"verif/harness/ref"
)

// C16 - SqrtRatio follows the ristretto255 SQRT_RATIO_M1 contract.

type sqrtCase struct {
	U     elemIn `json:"u"`
	V     elemIn `json:"v"`
	Alias int    `json:"alias"` // 0: distinct r, 1: r=u, 2: r=v, 3: u=v same pointer (only when limbs equal)
}

var subC16 = core.NewSub("C16/sqrtratio", func(w *core.Worker, c sqrtCase) *core.Fail {
	u, v := c.U.elem(), c.V.elem()
	var r field.Element
	r.Mult32(new(field.Element).One(), 12345)
	recv, pu, pv := &r, &u, &v
	switch c.Alias {
	case 1:
		recv = &u
	case 2:
		recv = &v
	case 3:
		pv = &u
	}
	uv, vv := c.U.value(), c.V.value()
	if c.Alias == 3 {
		vv = uv
	}
	wantSq, wantR := ref.SqrtRatioM1(uv, vv)
	ret, was := recv.SqrtRatio(pu, pv)
	if ret != recv {
		return core.Failf("SqrtRatio did not return the receiver")
	}
	if was != 0 && was != 1 {
		return core.Failf("wasSquare=%d not in {0,1}", was)
	}
	got := recv.Bytes()
	exp := ref.LE32(wantR)
	cls := "nonsquare"
	switch {
	case uv.Sign() == 0:
		cls = "u=0"
	case vv.Sign() == 0:
		cls = "v=0"
	case wantSq:
		cls = "square"
	}
	w.Distinct("case-class", []byte(cls))
	w.Distinct("nontrivial:roots", got)
	if (was == 1) != wantSq {
		return core.Failf("SqrtRatio(u=%x,v=%x) wasSquare=%d want %v [%s]", uv, vv, was, wantSq, cls)
	}
	if !bytes.Equal(got, exp[:]) {
		return core.Failf("SqrtRatio(u=%x,v=%x) r=%x want %x [%s]", uv, vv, got, exp[:], cls)
	}
	if got[0]&1 != 0 {
		return core.Failf("root is negative (odd)")
	}
	return nil // (u and v staying untouched is C11's business)
})

func init() { register("C16", "exploration", runC16) }

func runC16(ctx *core.Ctx) {
	ctx.Rule("all (u,v) in [0,N)^2 in canonical form (N=96 quick, 256 thorough); all ordered pairs of forms of alphabet F (value x representation); u=0 / v=0 against all forms; receiver aliased to u, to v, distinct, and u,v the same pointer. distinct_nontrivial = distinct returned roots; the four contract classes are counted separately")
	ctx.Assume("math/big ModSqrt/Exp are correct")
	N := sz(ctx, 96, 256, 600)
	subC16.Run(ctx, N*N, func(i int) sqrtCase {
		return sqrtCase{U: elemIn{alpha.CanonLimbs(big.NewInt(int64(i / N)))}, V: elemIn{alpha.CanonLimbs(big.NewInt(int64(i % N)))}, Alias: i % 3}
	})
	forms := fieldForms(smoke(ctx))
	nf := len(forms)
	subC16.Run(ctx, nf*nf*3, func(i int) sqrtCase {
		al := i % 3
		j := i / 3
		return sqrtCase{U: inOf(&forms[j/nf].E), V: inOf(&forms[j%nf].E), Alias: al}
	})
	subC16.Run(ctx, nf, func(i int) sqrtCase { return sqrtCase{U: inOf(&forms[i].E), V: inOf(&forms[i].E), Alias: 3} })
	// lattice corners as u against a few v
	k := 3
	nl := latticeSize(k)
	vs := []elemIn{{alpha.CanonLimbs(big.NewInt(1))}, {alpha.CanonLimbs(big.NewInt(2))}, {latticeAt(k, nl-1)}, {alpha.CanonLimbs(ref.SqrtM1)}}
	subC16.Run(ctx, nl*len(vs)*2, func(i int) sqrtCase {
		sw := i % 2
		j := i / 2
		a, b := elemIn{latticeAt(k, j/len(vs))}, vs[j%len(vs)]
		if sw == 1 {
			a, b = b, a
		}
		return sqrtCase{U: a, V: b}
	})
	// targeted inputs: the internal check value differs from its comparison
	// partner by a single bit / limb-corner pattern
	tg := sqrtRatioTargets()
	one := elemIn{alpha.CanonLimbs(big.NewInt(1))}
	subC16.Run(ctx, len(tg), func(i int) sqrtCase { return sqrtCase{U: elemIn{alpha.CanonLimbs(tg[i])}, V: one, Alias: i % 3} })
	if ctx.DistinctCount("case-class") != 4 {
		ctx.Vacuous("C16: not all four contract classes were exercised")
	}
}
