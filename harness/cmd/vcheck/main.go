// vcheck runs one property check (or replays one violation) against the
// filippo.io/edwards25519 tree this binary was built from.
package main

import "verif/harness/hmain"

func main() { hmain.Main() }
