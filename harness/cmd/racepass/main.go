// racepass is the supporting free-running pass of C18: built with -race from
// the UNINSTRUMENTED tree, it starts N goroutines behind a barrier in a cold
// process (tables unbuilt) and lets the Go race detector watch. It samples
// schedules; the controlled scheduler (schedcheck) is the deciding step.
package main

import (
	"bytes"
	"fmt"
	"os"
	"strconv"
	"sync"

	"filippo.io/edwards25519"
	"filippo.io/edwards25519/field"
)

func main() {
	n, _ := strconv.Atoi(os.Args[1])
	seed, _ := strconv.Atoi(os.Args[2])
	mk := func(b byte) *edwards25519.Scalar {
		var w [64]byte
		for i := range w {
			w[i] = b + byte(i)*3
		}
		s, _ := new(edwards25519.Scalar).SetUniformBytes(w[:])
		return s
	}
	k := []*edwards25519.Scalar{mk(byte(seed)), mk(byte(seed + 1)), mk(byte(seed + 2))}
	// shared read-only arguments, built without touching the base tables
	e, _ := new(edwards25519.Point).SetBytes(edwards25519.NewGeneratorPoint().Bytes())
	shared := new(edwards25519.Point).Add(e, e)
	// per-goroutine points (distinct values), also built without the base tables
	own := make([]*edwards25519.Point, 16)
	cur := new(edwards25519.Point).Set(shared)
	for i := range own {
		cur = new(edwards25519.Point).Add(cur, e)
		own[i] = cur
	}
	// shared read-only field elements in a non-canonical representation
	sx, sy, _, _ := new(edwards25519.Point).Add(shared, e).ExtendedCoordinates()
	sharedElem := new(field.Element).Add(sx, sx)
	sharedElem2 := new(field.Element).Subtract(sy, sx)
	work := func(i int) []byte {
		var out []byte
		mine := own[i%len(own)]
		// read-only use of shared values by every goroutine
		out = append(out, byte(sharedElem.Equal(sharedElem2)), byte(sharedElem.IsNegative()), byte(shared.Equal(own[0])))
		out = append(out, sharedElem.Bytes()...)
		out = append(out, new(field.Element).Multiply(sharedElem, sharedElem2).Bytes()...)
		out = append(out, new(field.Element).Add(sharedElem2, sharedElem).Bytes()...)
		out = append(out, shared.Bytes()...)
		out = append(out, shared.BytesMontgomery()...)
		out = append(out, k[0].Bytes()...)
		out = append(out, byte(k[0].Equal(k[1])))
		out = append(out, new(edwards25519.Point).VarTimeDoubleScalarBaseMult(k[i%3], mine, k[(i+1)%3]).Bytes()...)
		out = append(out, new(edwards25519.Point).ScalarMult(k[i%3], mine).Bytes()...)
		out = append(out, new(edwards25519.Point).VarTimeMultiScalarMult([]*edwards25519.Scalar{k[0], k[1]}, []*edwards25519.Point{mine, shared}).Bytes()...)
		// every other operation class, on private values
		if d, err := new(edwards25519.Point).SetBytes(mine.Bytes()); err == nil {
			out = append(out, d.BytesMontgomery()...)
			out = append(out, new(edwards25519.Point).Subtract(d, shared).Bytes()...)
			out = append(out, new(edwards25519.Point).MultByCofactor(d).Bytes()...)
			X, Y, Z, T := d.ExtendedCoordinates()
			if r, err := new(edwards25519.Point).SetExtendedCoordinates(X, Y, Z, T); err == nil {
				out = append(out, r.Negate(r).Bytes()...)
			}
			out = append(out, new(field.Element).Invert(X).Bytes()...)
			sr, was := new(field.Element).SqrtRatio(X, Z)
			out = append(out, append(sr.Bytes(), byte(was))...)
			out = append(out, new(field.Element).Absolute(Y).Bytes()...)
		} else {
			out = append(out, []byte("decode failed")...)
		}
		out = append(out, new(edwards25519.Scalar).Invert(k[i%3]).Bytes()...)
		out = append(out, new(edwards25519.Scalar).MultiplyAdd(k[0], k[1], k[i%3]).Bytes()...)
		if s, err := new(edwards25519.Scalar).SetBytesWithClamping(k[i%3].Bytes()); err == nil {
			out = append(out, s.Bytes()...)
		}
		switch (i + seed) % 3 {
		case 0:
			out = append(out, new(edwards25519.Point).ScalarBaseMult(k[i%3]).Bytes()...)
			out = append(out, new(edwards25519.Point).VarTimeDoubleScalarBaseMult(k[0], shared, k[1]).Bytes()...)
		case 1:
			out = append(out, new(edwards25519.Point).VarTimeDoubleScalarBaseMult(k[i%3], shared, k[2]).Bytes()...)
			out = append(out, new(edwards25519.Point).ScalarBaseMult(k[1]).Bytes()...)
		default:
			out = append(out, new(edwards25519.Point).ScalarMult(k[i%3], shared).Bytes()...)
			out = append(out, new(edwards25519.Point).MultiScalarMult([]*edwards25519.Scalar{k[0], k[0]}, []*edwards25519.Point{shared, shared}).Bytes()...)
			out = append(out, new(edwards25519.Point).ScalarBaseMult(k[2]).Bytes()...)
			out = append(out, shared.Bytes()...)
		}
		return out
	}
	start := make(chan struct{})
	var wg sync.WaitGroup
	res := make([][]byte, n)
	for i := 0; i < n; i++ {
		wg.Add(1)
		go func(i int) {
			defer wg.Done()
			<-start
			res[i] = work(i)
		}(i)
	}
	close(start)
	wg.Wait()
	for i := 0; i < n; i++ {
		if !bytes.Equal(res[i], work(i)) {
			fmt.Printf("MISMATCH goroutine %d\n", i)
			os.Exit(3)
		}
	}
	// phase 2: one multi-scalar call with many terms, then concurrent small
	// ones (pooled scratch that is mishandled on the oversized path)
	var bs []*edwards25519.Scalar
	var bp []*edwards25519.Point
	for i := 0; i < 13; i++ {
		bs = append(bs, k[i%3])
		bp = append(bp, own[i%len(own)])
	}
	new(edwards25519.Point).VarTimeMultiScalarMult(bs, bp)
	new(edwards25519.Point).MultiScalarMult(bs, bp)
	small := func(i int) []byte {
		a, b := own[i%len(own)], own[(i+5)%len(own)]
		o := new(edwards25519.Point).VarTimeMultiScalarMult([]*edwards25519.Scalar{k[i%3], k[(i+1)%3]}, []*edwards25519.Point{a, b}).Bytes()
		o = append(o, new(edwards25519.Point).MultiScalarMult([]*edwards25519.Scalar{k[(i+2)%3], k[i%3]}, []*edwards25519.Point{b, a}).Bytes()...)
		o = append(o, new(edwards25519.Point).VarTimeDoubleScalarBaseMult(k[i%3], a, k[(i+1)%3]).Bytes()...)
		return o
	}
	start2 := make(chan struct{})
	res2 := make([][]byte, n)
	for i := 0; i < n; i++ {
		wg.Add(1)
		go func(i int) {
			defer wg.Done()
			<-start2
			for r := 0; r < 20; r++ {
				res2[i] = small(i)
			}
		}(i)
	}
	close(start2)
	wg.Wait()
	for i := 0; i < n; i++ {
		if !bytes.Equal(res2[i], small(i)) {
			fmt.Printf("MISMATCH phase 2 goroutine %d\n", i)
			os.Exit(3)
		}
	}
}
