package checks

import (
	"math/big"

	"filippo.io/edwards25519/field"
	"verif/harness/alpha"
	"verif/harness/ref"
)

type Limbs = alpha.Limbs

const mask51 = alpha.Mask51

// cornerSet returns the per-limb corner values, clipped to the box.
// kind 7: {0,1,2^51-19,2^51-1,2^51,2^51+2^13*19,B_i}; 4: {0,2^51-1,2^51,B_i}; 3: {0,2^51-1,B_i}
func cornerSet(kind int, limb int) []uint64 {
	b := alpha.DefaultBox[limb]
	var v []uint64
	switch kind {
	case 7:
		v = []uint64{0, 1, mask51 - 18, mask51, mask51 + 1, mask51 + 1 + 19<<13, b}
	case 5:
		v = []uint64{0, 1, mask51, mask51 + 1, b}
	case 4:
		v = []uint64{0, mask51, mask51 + 1, b}
	case 3:
		v = []uint64{0, mask51, b}
	case 2:
		v = []uint64{0, b}
	default:
		panic("bad corner kind")
	}
	var out []uint64
	for _, x := range v {
		if x <= b {
			out = append(out, x)
		}
	}
	return out
}

// latticeSize / latticeAt enumerate L(K) without materialising it.
func latticeSize(kind int) int {
	n := 1
	for i := 0; i < 5; i++ {
		n *= len(cornerSet(kind, i))
	}
	return n
}

func latticeAt(kind int, idx int) Limbs {
	var l Limbs
	for i := 0; i < 5; i++ {
		cs := cornerSet(kind, i)
		l[i] = cs[idx%len(cs)]
		idx /= len(cs)
	}
	return l
}

// intForms enumerates limb vectors inside the box denoting the integer V
// exactly or V shifted by multiples of p through the wrap-around borrow (all
// verified to be congruent to V mod p). V may exceed 2^255 (top limb excess).
func intForms(V *big.Int) []Limbs {
	var c [5]*big.Int
	t := new(big.Int).Set(V)
	m := new(big.Int).SetUint64(mask51)
	for i := 0; i < 4; i++ {
		c[i] = new(big.Int).And(t, m)
		t.Rsh(t, 51)
	}
	c[4] = t
	seen := map[Limbs]bool{}
	var out []Limbs
	for pat := 0; pat < 32; pat++ {
		var l Limbs
		ok := true
		for i := 0; i < 5; i++ {
			x := new(big.Int).Set(c[i])
			if pat>>i&1 == 1 {
				x.Add(x, new(big.Int).Lsh(big.NewInt(1), 51))
			}
			prev := (i + 4) % 5
			if pat>>prev&1 == 1 {
				if i == 0 {
					x.Sub(x, big.NewInt(19))
				} else {
					x.Sub(x, big.NewInt(1))
				}
			}
			if x.Sign() < 0 || !x.IsUint64() {
				ok = false
				break
			}
			l[i] = x.Uint64()
		}
		if !ok || !alpha.InBox(l, alpha.DefaultBox) || seen[l] {
			continue
		}
		if ref.FRed(alpha.LimbValue(l)).Cmp(ref.FRed(V)) != 0 {
			panic("intForms produced a different residue")
		}
		seen[l] = true
		out = append(out, l)
	}
	return out
}

// fieldForms: all representations (API recipes + injected forms) of every
// value of alphabet F, as limb vectors when the layout allows.
type elemForm struct {
	V *big.Int
	E field.Element
}

func fieldForms(quick bool) []elemForm {
	var out []elemForm
	for _, v := range alpha.FieldValues(quick) {
		for _, e := range alpha.ElemForms(v) {
			out = append(out, elemForm{v, e})
		}
	}
	return out
}

// elemCase carries an element either as raw limbs (injection) or, when the
// layout guard fails, as canonical bytes.
type elemIn struct {
	L Limbs `json:"limbs"`
}

func (e elemIn) elem() field.Element { return alpha.ElemFromLimbs(e.L) }
func (e elemIn) value() *big.Int     { return ref.FRed(alpha.LimbValue(e.L)) }

func inOf(e *field.Element) elemIn { return elemIn{alpha.LimbsOf(e)} }

// targetedDeltas: field values a comparison that ignores part of its operands
// would treat as zero: every single bit, and the limb-corner patterns.
func targetedDeltas() []*big.Int {
	var out []*big.Int
	for k := uint(0); k < 255; k++ {
		out = append(out, new(big.Int).Lsh(big.NewInt(1), k))
	}
	for i := 0; i < latticeSize(3); i++ {
		if v := ref.FRed(alpha.LimbValue(latticeAt(3, i))); v.Sign() != 0 {
			out = append(out, v)
		}
	}
	for _, k := range []uint{32, 64, 83, 96, 128, 134, 160, 185, 192, 224, 236} {
		out = append(out, new(big.Int).Lsh(big.NewInt(0xffff), k))
	}
	return out
}

// sqrtRatioTargets returns u such that, with v = 1, the quantity SQRT_RATIO_M1
// compares against u (which is +-u or +-sqrt(-1)*u) differs from one of its
// comparison partners by exactly a targeted delta: u = delta / (s - t) for the
// unit pairs s != t in {1, -1, i, -i}.
func sqrtRatioTargets() []*big.Int {
	i := ref.SqrtM1
	units := []*big.Int{big.NewInt(1), ref.FNeg(big.NewInt(1)), i, ref.FNeg(i)}
	var out []*big.Int
	for _, d := range targetedDeltas() {
		for a := 0; a < 4; a++ {
			for b := 0; b < 4; b++ {
				if a == b {
					continue
				}
				den := ref.FSub(units[a], units[b])
				if den.Sign() == 0 {
					continue
				}
				out = append(out, ref.FDiv(d, den))
			}
		}
	}
	return out
}
