// Package vsync replaces the standard sync package in the scheduling build
// (injected with -overlay; not part of the repository). Each operation is a
// scheduling point of the controlled scheduler and a happens-before edge.
// Once follows the structure of the standard library's implementation
// (atomic fast path, mutex, re-check, store after f).
package vsync

import (
	"filippo.io/edwards25519/vsched"
	"filippo.io/edwards25519/vsync/atomic"
)

type Mutex struct {
	locked bool
	vc     vsched.VC
}

func (m *Mutex) Lock() {
	vsched.Point("lock", "mutex")
	vsched.Block("lock", "mutex", func() bool { return m.locked })
	m.locked = true
	vsched.Acquire(&m.vc)
}

func (m *Mutex) TryLock() bool {
	vsched.Point("trylock", "mutex")
	if m.locked {
		return false
	}
	m.locked = true
	vsched.Acquire(&m.vc)
	return true
}

func (m *Mutex) Unlock() {
	vsched.Point("unlock", "mutex")
	if !m.locked {
		panic("vsync: unlock of unlocked mutex")
	}
	vsched.Release(&m.vc)
	m.locked = false
}

type Locker interface {
	Lock()
	Unlock()
}

// RWMutex is modelled as a plain mutex (coarser, still sound for exclusion).
type RWMutex struct{ m Mutex }

func (rw *RWMutex) Lock()    { rw.m.Lock() }
func (rw *RWMutex) Unlock()  { rw.m.Unlock() }
func (rw *RWMutex) RLock()   { rw.m.Lock() }
func (rw *RWMutex) RUnlock() { rw.m.Unlock() }

type Once struct {
	done atomic.Uint32
	m    Mutex
}

func (o *Once) Do(f func()) {
	if o.done.Load() == 0 {
		o.doSlow(f)
	}
}

func (o *Once) doSlow(f func()) {
	o.m.Lock()
	defer o.m.Unlock()
	if o.done.Load() == 0 {
		defer o.done.Store(1)
		f()
	}
}

func OnceFunc(f func()) func() {
	var once Once
	return func() { once.Do(f) }
}

func OnceValue[T any](f func() T) func() T {
	var once Once
	var v T
	return func() T {
		once.Do(func() { v = f() })
		return v
	}
}

type WaitGroup struct {
	n  int
	vc vsched.VC
}

func (wg *WaitGroup) Add(d int) {
	vsched.Point("wg-add", "wg")
	wg.n += d
	if d < 0 {
		vsched.Release(&wg.vc)
	}
}
func (wg *WaitGroup) Done() { wg.Add(-1) }
func (wg *WaitGroup) Wait() {
	vsched.Point("wg-wait", "wg")
	vsched.Block("wg-wait", "wg", func() bool { return wg.n > 0 })
	vsched.Acquire(&wg.vc)
}
