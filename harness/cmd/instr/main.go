// instr is the source-to-source instrumenter. It reads the non-test Go files of
// the library under test (the working tree as it is now), writes instrumented
// copies into an output directory and emits a `go build -overlay` JSON file
// that substitutes them (and adds the virtual runtime packages). The
// repository itself is never written.
//
// Modes:
//
//	sched  rewrite sync / sync/atomic imports to the vsync shim; classify
//	       package-level variables (mutable after init or not) and insert
//	       vsched.Access before every statement mentioning a mutable one;
//	       generate per-package cold-state snapshot/restore functions.
//	ct     leakage trace: record branch outcomes, index/slice-bound values,
//	       shift counts, div/mod operands, deny-listed library calls.
package main

import (
	"encoding/json"
	"flag"
	"fmt"
	"go/ast"
	"go/build"
	"go/importer"
	"go/parser"
	"go/printer"
	"go/token"
	"go/types"
	"os"
	"path/filepath"
	"regexp"
	"sort"
	"strings"
)

const modPath = "filippo.io/edwards25519"

type pkgInfo struct {
	dir     string // absolute
	rel     string // "" or "field"
	path    string // import path
	files   []*ast.File
	fnames  []string
	pkg     *types.Package
	info    *types.Info
	tainted map[types.Object]bool // ct mode: identifiers carrying secret-dependent... (unused)
}

var fset = token.NewFileSet()

func die(format string, a ...any) {
	fmt.Fprintf(os.Stderr, "instr: "+format+"\n", a...)
	os.Exit(2)
}

func loadPkg(repo, rel string, tags []string, imp types.Importer) *pkgInfo {
	dir := filepath.Join(repo, rel)
	ctx := build.Default
	ctx.BuildTags = tags
	ents, err := os.ReadDir(dir)
	if err != nil {
		die("%v", err)
	}
	p := &pkgInfo{dir: dir, rel: rel, path: modPath}
	if rel != "" {
		p.path = modPath + "/" + rel
	}
	for _, e := range ents {
		n := e.Name()
		if e.IsDir() || !strings.HasSuffix(n, ".go") || strings.HasSuffix(n, "_test.go") {
			continue
		}
		ok, err := ctx.MatchFile(dir, n)
		if err != nil {
			die("%v", err)
		}
		if !ok {
			continue
		}
		f, err := parser.ParseFile(fset, filepath.Join(dir, n), nil, parser.ParseComments)
		if err != nil {
			die("parse %s: %v", n, err)
		}
		if f.Name.Name == "main" { // generator programs guarded by build tags
			continue
		}
		p.files = append(p.files, f)
		p.fnames = append(p.fnames, filepath.Join(dir, n))
	}
	p.info = &types.Info{Types: map[ast.Expr]types.TypeAndValue{}, Uses: map[*ast.Ident]types.Object{}, Defs: map[*ast.Ident]types.Object{}, Selections: map[*ast.SelectorExpr]*types.Selection{}}
	conf := types.Config{Importer: imp, Error: func(err error) {}}
	pkg, err := conf.Check(p.path, fset, p.files, p.info)
	if err != nil && pkg == nil {
		die("type-check %s: %v", p.path, err)
	}
	p.pkg = pkg
	return p
}

// chainImporter resolves the library's own packages (the root package, field
// and any further in-module package a tree may introduce) by loading them from
// the working tree, dependencies first, and everything else from source.
type chainImporter struct {
	own   map[string]*types.Package
	src   types.Importer
	repo  string
	tags  []string
	order []*pkgInfo // in-module packages in dependency order
}

func (c *chainImporter) Import(path string) (*types.Package, error) {
	if p, ok := c.own[path]; ok {
		return p, nil
	}
	if strings.HasPrefix(path, modPath+"/") {
		rel := strings.TrimPrefix(path, modPath+"/")
		if st, err := os.Stat(filepath.Join(c.repo, rel)); err == nil && st.IsDir() {
			p := loadPkg(c.repo, rel, c.tags, c)
			c.own[path] = p.pkg
			c.order = append(c.order, p)
			return p.pkg, nil
		}
	}
	return c.src.Import(path)
}

func main() {
	mode := flag.String("mode", "", "sched|ct")
	repo := flag.String("repo", "/repo", "library source tree")
	out := flag.String("out", "", "output directory")
	virt := flag.String("virt", "", "directory holding the virtual runtime packages (_virt)")
	tagsF := flag.String("tags", "", "comma separated build tags")
	plain := flag.Bool("plain", false, "sched mode: leave the sources alone (no scheduler control), only generate snapshot/restore")
	flag.Parse()
	if *out == "" || *virt == "" {
		die("need -out and -virt")
	}
	var tags []string
	if *tagsF != "" {
		tags = strings.Split(*tagsF, ",")
	}
	os.MkdirAll(*out, 0o755)
	ci := &chainImporter{own: map[string]*types.Package{}, src: importer.ForCompiler(fset, "source", nil), repo: *repo, tags: tags}
	root := loadPkg(*repo, "", tags, ci)
	if _, ok := ci.own[modPath+"/field"]; !ok {
		if st, err := os.Stat(filepath.Join(*repo, "field")); err == nil && st.IsDir() {
			ci.Import(modPath + "/field")
		}
	}
	pkgs := append(append([]*pkgInfo{}, ci.order...), root)
	for _, p := range ci.order {
		if p.rel != "field" {
			extraPkgs = append(extraPkgs, p)
		}
	}
	overlay := map[string]string{}
	report := map[string]any{}
	switch *mode {
	case "sched":
		mod.build(pkgs)
		// classification must see every package before any file is rewritten
		for _, p := range pkgs {
			scanAssembly(p, tags)
			classifySched(p)
		}
		plainMode = *plain
		uses := []string{}
		for _, p := range pkgs {
			uses = append(uses, channelUses(p)...)
		}
		report["channel_operations"] = uses
		for _, p := range pkgs {
			instrumentSched(p, *out, overlay, report)
		}
		report["plain"] = plainMode
		report["functions"] = funcTable
		addVirtual(*repo, *virt, "vsched", overlay)
		addVirtual(*repo, *virt, "vsync", overlay)
		addVirtual(*repo, *virt, "vsync/atomic", overlay)
	case "ct":
		for _, p := range pkgs {
			instrumentCT(p, *out, overlay, report)
		}
		addVirtual(*repo, *virt, "vtrace", overlay)
	default:
		die("unknown mode %q", *mode)
	}
	b, _ := json.MarshalIndent(map[string]any{"Replace": overlay}, "", " ")
	if err := os.WriteFile(filepath.Join(*out, "overlay.json"), b, 0o644); err != nil {
		die("%v", err)
	}
	rb, _ := json.MarshalIndent(report, "", " ")
	os.WriteFile(filepath.Join(*out, "report.json"), rb, 0o644)
}

func addVirtual(repo, virt, name string, overlay map[string]string) {
	src := filepath.Join(virt, name)
	ents, err := os.ReadDir(src)
	if err != nil {
		die("%v", err)
	}
	for _, e := range ents {
		if !e.IsDir() && strings.HasSuffix(e.Name(), ".go") {
			overlay[filepath.Join(repo, name, e.Name())] = filepath.Join(src, e.Name())
		}
	}
}

func writeFile(p *pkgInfo, i int, f *ast.File, out string, overlay map[string]string) {
	dst := filepath.Join(out, p.rel, filepath.Base(p.fnames[i]))
	os.MkdirAll(filepath.Dir(dst), 0o755)
	w, err := os.Create(dst)
	if err != nil {
		die("%v", err)
	}
	cfg := printer.Config{Mode: printer.UseSpaces | printer.TabIndent, Tabwidth: 8}
	if err := cfg.Fprint(w, fset, f); err != nil {
		die("print %s: %v", dst, err)
	}
	w.Close()
	overlay[p.fnames[i]] = dst
}

func addImport(f *ast.File, name, path string) {
	for _, im := range f.Imports {
		if strings.Trim(im.Path.Value, `"`) == path {
			return
		}
	}
	spec := &ast.ImportSpec{Path: &ast.BasicLit{Kind: token.STRING, Value: fmt.Sprintf("%q", path)}}
	if name != "" {
		spec.Name = ast.NewIdent(name)
	}
	decl := &ast.GenDecl{Tok: token.IMPORT, Specs: []ast.Spec{spec}}
	f.Decls = append([]ast.Decl{decl}, f.Decls...)
	f.Imports = append(f.Imports, spec)
}

// ---------------------------------------------------------------- sched mode

type mention struct {
	obj   *types.Var
	write bool
}

// rootIdent returns the identifier at the root of x, x.f, x[i], (*x) chains.
func rootIdent(e ast.Expr) *ast.Ident {
	for {
		switch v := e.(type) {
		case *ast.Ident:
			return v
		case *ast.SelectorExpr:
			e = v.X
		case *ast.IndexExpr:
			e = v.X
		case *ast.StarExpr:
			e = v.X
		case *ast.ParenExpr:
			e = v.X
		case *ast.SliceExpr:
			e = v.X
		default:
			return nil
		}
	}
}

// Struct-typed package-level variables are tracked per first-level field: two
// lazily built tables kept side by side in one struct, each under its own
// Once, are different memory. A field is represented by a synthetic *types.Var
// named "G.f"; a mention of the whole variable stands for all its fields.
var (
	fieldVars   = map[*types.Var]map[string]*types.Var{}
	fieldParent = map[*types.Var]*types.Var{}
)

func structOf(v *types.Var) *types.Struct {
	if isSyncType(v.Type()) {
		return nil
	}
	st, _ := v.Type().Underlying().(*types.Struct)
	if st == nil || st.NumFields() == 0 {
		return nil
	}
	return st
}

func fieldVar(g *types.Var, f string) *types.Var {
	st := structOf(g)
	if st == nil {
		return g
	}
	if fv := fieldVars[g][f]; fv != nil {
		return fv
	}
	for i := 0; i < st.NumFields(); i++ {
		if st.Field(i).Name() == f {
			fv := types.NewVar(g.Pos(), g.Pkg(), g.Name()+"."+f, st.Field(i).Type())
			if fieldVars[g] == nil {
				fieldVars[g] = map[string]*types.Var{}
			}
			fieldVars[g][f] = fv
			fieldParent[fv] = g
			return fv
		}
	}
	return g
}

// allFieldVars: the field variables standing for the whole of g (g itself if
// it is not a struct).
func allFieldVars(g *types.Var) []*types.Var {
	st := structOf(g)
	if st == nil || fieldParent[g] != nil {
		return []*types.Var{g}
	}
	var out []*types.Var
	for i := 0; i < st.NumFields(); i++ {
		if st.Field(i).Name() == "_" {
			continue
		}
		out = append(out, fieldVar(g, st.Field(i).Name()))
	}
	return out
}

// firstField: for a chain rooted at identifier id (id.f.g[i]...), the name of
// the field selected directly on id ("" if none).
func firstField(e ast.Expr) (id *ast.Ident, field string) {
	switch v := e.(type) {
	case *ast.Ident:
		return v, ""
	case *ast.SelectorExpr:
		x := v.X
		for {
			if p, ok := x.(*ast.ParenExpr); ok {
				x = p.X
				continue
			}
			break
		}
		if rid, ok := x.(*ast.Ident); ok {
			return rid, v.Sel.Name
		}
		return firstField(v.X)
	case *ast.IndexExpr:
		return firstField(v.X)
	case *ast.StarExpr:
		return firstField(v.X)
	case *ast.ParenExpr:
		return firstField(v.X)
	case *ast.SliceExpr:
		return firstField(v.X)
	}
	return nil, ""
}

func isSyncType(t types.Type) bool {
	for {
		if p, ok := t.(*types.Pointer); ok {
			t = p.Elem()
			continue
		}
		break
	}
	if n, ok := t.(*types.Named); ok && n.Obj().Pkg() != nil {
		pp := n.Obj().Pkg().Path()
		return pp == "sync" || pp == "sync/atomic" || strings.HasSuffix(pp, "/vsync") || strings.HasSuffix(pp, "/vsync/atomic")
	}
	return false
}

// ---- interprocedural "may write through this pointer parameter" analysis ----

type paramKey struct {
	fn  *types.Func
	idx int // -1 = receiver
}

type modAnalysis struct {
	writes  map[paramKey]bool
	edges   map[paramKey][]paramKey // callee param -> caller params that flow into it
	retGlob map[*types.Func]*types.Var
	pkgs    []*pkgInfo
}

var mod = &modAnalysis{writes: map[paramKey]bool{}, edges: map[paramKey][]paramKey{}, retGlob: map[*types.Func]*types.Var{}}

func (p *pkgInfo) calleeOf(call *ast.CallExpr) (*types.Func, ast.Expr) {
	switch f := call.Fun.(type) {
	case *ast.Ident:
		if fn, ok := p.info.Uses[f].(*types.Func); ok {
			return fn, nil
		}
	case *ast.SelectorExpr:
		if sel := p.info.Selections[f]; sel != nil && sel.Kind() == types.MethodVal {
			if fn, ok := sel.Obj().(*types.Func); ok {
				return fn, f.X
			}
		}
		if fn, ok := p.info.Uses[f.Sel].(*types.Func); ok {
			return fn, nil
		}
	}
	return nil, nil
}

// isLibFunc: the callee is defined in one of the analysed packages.
func isLibFunc(fn *types.Func) bool {
	return fn.Pkg() != nil && strings.HasPrefix(fn.Pkg().Path(), modPath)
}

// externalWrites: policy for callees outside the library.
func externalWrites(fn *types.Func, builtin string, idx int) bool {
	if builtin == "copy" {
		return idx == 0
	}
	if builtin != "" {
		return false // len, cap, append(new slice), make, new, panic...
	}
	if fn == nil {
		return true
	}
	pp := ""
	if fn.Pkg() != nil {
		pp = fn.Pkg().Path()
	}
	switch pp {
	case "crypto/subtle", "math/bits", "errors", "bytes", "fmt":
		return false
	case "encoding/binary":
		return strings.HasPrefix(fn.Name(), "Put") && idx == 0
	}
	if strings.HasSuffix(pp, "/vsched") {
		return false
	}
	return true
}

func pointerLike(t types.Type) bool {
	switch t.Underlying().(type) {
	case *types.Pointer, *types.Slice, *types.Map:
		return true
	}
	return false
}

func (m *modAnalysis) build(pkgs []*pkgInfo) {
	m.pkgs = pkgs
	for _, p := range pkgs {
		for _, f := range p.files {
			for _, d := range f.Decls {
				fd, ok := d.(*ast.FuncDecl)
				if ok && fd.Body == nil {
					// implemented in assembly: by the repository's convention
					// the first pointer parameter is the output, the others
					// are only read
					if fn, _ := p.info.Defs[fd.Name].(*types.Func); fn != nil {
						sig := fn.Type().(*types.Signature)
						for i := 0; i < sig.Params().Len(); i++ {
							if pointerLike(sig.Params().At(i).Type()) {
								m.writes[paramKey{fn, i}] = true
								break
							}
						}
					}
					continue
				}
				if !ok {
					continue
				}
				fn, _ := p.info.Defs[fd.Name].(*types.Func)
				if fn == nil {
					continue
				}
				sig := fn.Type().(*types.Signature)
				params := map[types.Object]int{}
				if sig.Recv() != nil {
					params[sig.Recv()] = -1
				}
				for i := 0; i < sig.Params().Len(); i++ {
					params[sig.Params().At(i)] = i
				}
				paramOf := func(e ast.Expr) (int, bool) {
					// strip & and derefs/selectors/index/slices
					for {
						if u, ok := e.(*ast.UnaryExpr); ok && u.Op == token.AND {
							e = u.X
							continue
						}
						break
					}
					id := rootIdent(e)
					if id == nil {
						return 0, false
					}
					obj := p.info.Uses[id]
					if obj == nil {
						return 0, false
					}
					i, ok := params[obj]
					return i, ok
				}
				localAliases := p.aliasesIn(fd.Body)
				ast.Inspect(fd.Body, func(x ast.Node) bool {
					switch v := x.(type) {
					case *ast.AssignStmt:
						for _, l := range v.Lhs {
							if _, bare := l.(*ast.Ident); bare {
								continue
							}
							if i, ok := paramOf(l); ok {
								m.writes[paramKey{fn, i}] = true
							}
						}
					case *ast.IncDecStmt:
						if _, bare := v.X.(*ast.Ident); !bare {
							if i, ok := paramOf(v.X); ok {
								m.writes[paramKey{fn, i}] = true
							}
						}
					case *ast.ReturnStmt:
						for _, r := range v.Results {
							if g := p.globalAddr(r); g != nil {
								m.retGlob[fn] = g
							} else if g := p.aliasAddr(r, localAliases); g != nil {
								m.retGlob[fn] = g
							}
						}
					case *ast.CallExpr:
						callee, recvX := p.calleeOf(v)
						builtin := ""
						if id, ok := v.Fun.(*ast.Ident); ok {
							if _, isB := p.info.Uses[id].(*types.Builtin); isB {
								builtin = id.Name
							}
						}
						if tv, ok := p.info.Types[v.Fun]; ok && tv.IsType() {
							return true // conversion
						}
						if recvX != nil && callee != nil {
							if i, ok := paramOf(recvX); ok {
								csig := callee.Type().(*types.Signature)
								_, ptrRecv := csig.Recv().Type().(*types.Pointer)
								if ptrRecv {
									if isLibFunc(callee) {
										k := paramKey{callee, -1}
										m.edges[k] = append(m.edges[k], paramKey{fn, i})
									} else if !isSyncType(csig.Recv().Type()) && externalWrites(callee, "", -1) {
										m.writes[paramKey{fn, i}] = true
									}
								}
							}
						}
						for ai, a := range v.Args {
							i, ok := paramOf(a)
							if !ok {
								continue
							}
							at := p.info.Types[a].Type
							if at == nil || !pointerLike(at) {
								continue
							}
							if callee != nil && isLibFunc(callee) {
								k := paramKey{callee, ai}
								m.edges[k] = append(m.edges[k], paramKey{fn, i})
							} else if externalWrites(callee, builtin, ai) {
								m.writes[paramKey{fn, i}] = true
							}
						}
					}
					return true
				})
			}
		}
	}
	for changed := true; changed; {
		changed = false
		for k, callers := range m.edges {
			if !m.writes[k] {
				continue
			}
			for _, c := range callers {
				if !m.writes[c] {
					m.writes[c] = true
					changed = true
				}
			}
		}
	}
}

// globalAddr: e is &G..., or a bare pointer-typed package-level G: returns G.
func (p *pkgInfo) globalAddr(e ast.Expr) *types.Var {
	if u, ok := e.(*ast.UnaryExpr); ok && u.Op == token.AND {
		if id, f := firstField(u.X); id != nil {
			if v, ok := p.info.Uses[id].(*types.Var); ok && v.Pkg() != nil && v.Parent() == v.Pkg().Scope() {
				if f != "" {
					return fieldVar(v, f)
				}
				return v
			}
		}
		return nil
	}
	if id, ok := e.(*ast.Ident); ok {
		if v, ok := p.info.Uses[id].(*types.Var); ok && v.Pkg() != nil && v.Parent() == v.Pkg().Scope() {
			if _, isPtr := v.Type().Underlying().(*types.Pointer); isPtr {
				return v
			}
		}
	}
	return nil
}

// aliasAddr: e is &x... or x where x is a local alias of a package-level
// variable: returns that variable.
func (p *pkgInfo) aliasAddr(e ast.Expr, al map[types.Object]*types.Var) *types.Var {
	if u, ok := e.(*ast.UnaryExpr); ok && u.Op == token.AND {
		e = u.X
	}
	if id := rootIdent(e); id != nil {
		if obj := p.info.Uses[id]; obj != nil {
			return al[obj]
		}
	}
	return nil
}

// aliasesIn: locals of fd that hold the address of a package-level variable.
func (p *pkgInfo) aliasesIn(body *ast.BlockStmt) map[types.Object]*types.Var {
	al := map[types.Object]*types.Var{}
	source := func(e ast.Expr) *types.Var {
		if g := p.globalAddr(e); g != nil {
			return g
		}
		if c, ok := e.(*ast.CallExpr); ok {
			if callee, _ := p.calleeOf(c); callee != nil {
				return mod.retGlob[callee]
			}
		}
		return nil
	}
	ast.Inspect(body, func(x ast.Node) bool {
		switch v := x.(type) {
		case *ast.AssignStmt:
			if len(v.Lhs) == len(v.Rhs) {
				for i, l := range v.Lhs {
					id, ok := l.(*ast.Ident)
					if !ok {
						continue
					}
					if g := source(v.Rhs[i]); g != nil {
						obj := p.info.Defs[id]
						if obj == nil {
							obj = p.info.Uses[id]
						}
						if obj != nil && obj.Parent() != p.pkg.Scope() {
							al[obj] = g
						}
					}
				}
			}
		case *ast.ValueSpec:
			for i, id := range v.Names {
				if i < len(v.Values) {
					if g := source(v.Values[i]); g != nil {
						if obj := p.info.Defs[id]; obj != nil && obj.Parent() != p.pkg.Scope() {
							al[obj] = g
						}
					}
				}
			}
		}
		return true
	})
	return al
}

// mentionsIn lists the package-level variables accessed by node n - directly
// or through a local alias holding their address - with the access kind.
func (p *pkgInfo) mentionsIn(n ast.Node, skipBodies bool, aliases map[types.Object]*types.Var) []mention {
	var out []mention
	writes := map[*ast.Ident]bool{}
	skip := map[*ast.Ident]bool{}
	// field selected directly on each identifier (G.f...)
	selField := map[*ast.Ident]string{}
	ast.Inspect(n, func(x ast.Node) bool {
		if se, ok := x.(*ast.SelectorExpr); ok {
			if id, f := firstField(se); id != nil && f != "" {
				if _, seen := selField[id]; !seen {
					selField[id] = f
				}
			}
		}
		return true
	})
	// A local alias (a pointer holding the address of a package-level
	// variable) accesses the variable only where it is dereferenced or handed
	// to a call; comparing it with nil or copying the pointer is not an access.
	deref := map[*ast.Ident]bool{}
	markDeref := func(e ast.Expr) {
		for {
			switch v := e.(type) {
			case *ast.ParenExpr:
				e = v.X
				continue
			case *ast.UnaryExpr:
				if v.Op == token.AND {
					e = v.X
					continue
				}
			}
			break
		}
		if id, ok := e.(*ast.Ident); ok {
			deref[id] = true
		}
	}
	ast.Inspect(n, func(x ast.Node) bool {
		switch v := x.(type) {
		case *ast.SelectorExpr:
			markDeref(v.X)
		case *ast.IndexExpr:
			markDeref(v.X)
		case *ast.SliceExpr:
			markDeref(v.X)
		case *ast.StarExpr:
			markDeref(v.X)
		case *ast.RangeStmt:
			markDeref(v.X)
		case *ast.CallExpr:
			for _, a := range v.Args {
				markDeref(a)
			}
		}
		return true
	})
	resolve := func(id *ast.Ident) *types.Var {
		obj := p.info.Uses[id]
		if obj == nil {
			return nil
		}
		if v, ok := obj.(*types.Var); ok && v.Pkg() != nil && v.Parent() == v.Pkg().Scope() {
			if f := selField[id]; f != "" {
				return fieldVar(v, f)
			}
			return v
		}
		if g, ok := aliases[obj]; ok {
			return g
		}
		return nil
	}
	ast.Inspect(n, func(x ast.Node) bool {
		switch v := x.(type) {
		case *ast.FuncLit:
			return false
		case *ast.BlockStmt:
			if skipBodies && x != n {
				return false
			}
		case *ast.AssignStmt:
			for _, l := range v.Lhs {
				if id := rootIdent(l); id != nil {
					if _, bare := l.(*ast.Ident); bare && p.info.Uses[id] != nil && aliases[p.info.Uses[id]] != nil {
						skip[id] = true // re-pointing a local alias is not an access
						continue
					}
					writes[id] = true
				}
			}
			if v.Tok == token.DEFINE {
				for _, l := range v.Lhs {
					if id, ok := l.(*ast.Ident); ok {
						skip[id] = true
					}
				}
			}
		case *ast.IncDecStmt:
			if id := rootIdent(v.X); id != nil {
				writes[id] = true
			}
		case *ast.UnaryExpr:
			if v.Op == token.AND {
				// taking an address is not an access (accesses through the
				// pointer are attributed where the alias is used)
				if id := rootIdent(v.X); id != nil && resolve(id) != nil {
					if _, direct := p.info.Uses[id].(*types.Var); direct && aliases[p.info.Uses[id]] == nil {
						skip[id] = true
					}
				}
			}
		case *ast.CallExpr:
			callee, recvX := p.calleeOf(v)
			builtin := ""
			if id, ok := v.Fun.(*ast.Ident); ok {
				if _, isB := p.info.Uses[id].(*types.Builtin); isB {
					builtin = id.Name
				}
			}
			if recvX != nil && callee != nil {
				if id := rootIdent(recvX); id != nil && resolve(id) != nil {
					csig := callee.Type().(*types.Signature)
					rt := p.info.Types[recvX].Type
					if rt != nil && isSyncType(rt) {
						skip[id] = true // operation on a sync object: its own scheduling points
					} else if _, ptrRecv := csig.Recv().Type().(*types.Pointer); ptrRecv {
						if isLibFunc(callee) {
							if mod.writes[paramKey{callee, -1}] {
								writes[id] = true
							}
						} else if externalWrites(callee, "", -1) {
							writes[id] = true
						}
					}
				}
			}
			for ai, a := range v.Args {
				e := a
				if u, ok := e.(*ast.UnaryExpr); ok && u.Op == token.AND {
					e = u.X
				}
				id := rootIdent(e)
				if id == nil || resolve(id) == nil {
					continue
				}
				at := p.info.Types[a].Type
				if at == nil || !pointerLike(at) {
					continue
				}
				delete(skip, id)
				if callee != nil && isLibFunc(callee) {
					if mod.writes[paramKey{callee, ai}] {
						writes[id] = true
					}
				} else if externalWrites(callee, builtin, ai) {
					writes[id] = true
				}
			}
		}
		return true
	})
	ast.Inspect(n, func(x ast.Node) bool {
		switch v := x.(type) {
		case *ast.FuncLit:
			return false
		case *ast.BlockStmt:
			if skipBodies && x != n {
				return false
			}
		case *ast.Ident:
			g := resolve(v)
			if g == nil || skip[v] {
				return true
			}
			if obj := p.info.Uses[v]; obj != nil && aliases[obj] != nil && !deref[v] && !writes[v] {
				return true // the pointer itself, not what it points to
			}
			for _, fv := range allFieldVars(g) {
				out = append(out, mention{fv, writes[v]})
			}
		case *ast.CallExpr:
			if callee, _ := p.calleeOf(v); callee != nil {
				for _, g := range asmGlobals[callee] {
					for _, fv := range allFieldVars(g) {
						out = append(out, mention{fv, true})
					}
				}
			}
		}
		return true
	})
	return out
}

// rewriteGoStmts turns every go statement below body into a call of
// vsched.Go, so that goroutines the library starts itself run under the
// controlled scheduler too. Arguments are evaluated at the statement, as the
// language requires; the call itself runs in the new thread.
func rewriteGoStmts(body *ast.BlockStmt) bool {
	changed := false
	conv := func(g *ast.GoStmt) ast.Stmt {
		changed = true
		schedGo := func(fn ast.Expr) ast.Stmt {
			return &ast.ExprStmt{X: &ast.CallExpr{
				Fun:  &ast.SelectorExpr{X: ast.NewIdent("vsched"), Sel: ast.NewIdent("Go")},
				Args: []ast.Expr{fn}}}
		}
		call := g.Call
		if fl, ok := call.Fun.(*ast.FuncLit); ok && len(call.Args) == 0 {
			return schedGo(fl)
		}
		var lhs, rhs []ast.Expr
		var args []ast.Expr
		for i, a := range call.Args {
			id := ast.NewIdent(fmt.Sprintf("verifGoArg%d", i))
			lhs = append(lhs, id)
			rhs = append(rhs, a)
			args = append(args, ast.NewIdent(id.Name))
		}
		inner := &ast.CallExpr{Fun: call.Fun, Args: args, Ellipsis: call.Ellipsis}
		if call.Ellipsis == token.NoPos {
			inner.Ellipsis = token.NoPos
		} else {
			inner.Ellipsis = 1
		}
		lit := &ast.FuncLit{Type: &ast.FuncType{Params: &ast.FieldList{}}, Body: &ast.BlockStmt{List: []ast.Stmt{&ast.ExprStmt{X: inner}}}}
		var list []ast.Stmt
		if len(lhs) > 0 {
			list = append(list, &ast.AssignStmt{Lhs: lhs, Tok: token.DEFINE, Rhs: rhs})
		}
		list = append(list, schedGo(lit))
		return &ast.BlockStmt{List: list}
	}
	fix := func(list []ast.Stmt) {
		for i, st := range list {
			if g, ok := st.(*ast.GoStmt); ok {
				list[i] = conv(g)
			} else if l, ok := st.(*ast.LabeledStmt); ok {
				if g, ok := l.Stmt.(*ast.GoStmt); ok {
					l.Stmt = conv(g)
				}
			}
		}
	}
	ast.Inspect(body, func(x ast.Node) bool {
		switch v := x.(type) {
		case *ast.BlockStmt:
			fix(v.List)
		case *ast.CaseClause:
			fix(v.Body)
		case *ast.CommClause:
			fix(v.Body)
		}
		return true
	})
	return changed
}

var plainMode bool

// extraPkgs: in-module packages other than the root package and field. The
// harness cannot import them (they may be internal), so the root package's
// generated snapshot functions chain to theirs.
var extraPkgs []*pkgInfo

// channelUses lists the channel operations of the package's non-test sources:
// the controlled scheduler models the sync and sync/atomic packages and go
// statements, not channels (a thread blocked on a channel would stall it).
func channelUses(p *pkgInfo) []string {
	var out []string
	add := func(n ast.Node, what string) {
		pos := fset.Position(n.Pos())
		out = append(out, fmt.Sprintf("%s:%d %s", filepath.Base(pos.Filename), pos.Line, what))
	}
	for _, f := range p.files {
		ast.Inspect(f, func(x ast.Node) bool {
			switch v := x.(type) {
			case *ast.ChanType:
				add(v, "chan type")
			case *ast.SendStmt:
				add(v, "send")
			case *ast.SelectStmt:
				add(v, "select")
			case *ast.UnaryExpr:
				if v.Op == token.ARROW {
					add(v, "receive")
				}
			}
			return true
		})
	}
	return out
}

var mutableAll = map[*types.Var]bool{}

// funcTable: function id -> name, for the execution-count profile.
var funcTable []string

// classifySched marks package-level variables (of any analysed package) that
// some function body of p may write, directly or through a local alias.
func classifySched(p *pkgInfo) {
	for _, f := range p.files {
		for _, d := range f.Decls {
			fd, ok := d.(*ast.FuncDecl)
			if !ok || fd.Body == nil {
				continue
			}
			if fd.Recv == nil && fd.Name.Name == "init" {
				// package initialisation runs single-threaded before any
				// goroutine of the harness exists: what only init() writes is
				// read-only for every execution that is explored
				continue
			}
			al := p.aliasesIn(fd.Body)
			ast.Inspect(fd.Body, func(x ast.Node) bool {
				if st, ok := x.(ast.Stmt); ok {
					for _, m := range p.mentionsIn(st, true, al) {
						if m.write {
							mutableAll[m.obj] = true
						}
					}
				}
				return true
			})
		}
	}
}

// asmGlobals: package-level variables referenced from assembly, per assembly
// function (TEXT block). Assembly is opaque to the source instrumentation, so
// a call of such a function is treated as a write access to those variables.
var asmGlobals = map[*types.Func][]*types.Var{}

var (
	reAsmText = regexp.MustCompile(`^TEXT\s+·(\w+)\(SB\)`)
	reAsmSym  = regexp.MustCompile(`·(\w+)(?:[+-]\d+)?\(SB\)`)
)

func scanAssembly(p *pkgInfo, tags []string) {
	ctx := build.Default
	ctx.BuildTags = tags
	ents, _ := os.ReadDir(p.dir)
	for _, e := range ents {
		if e.IsDir() || !strings.HasSuffix(e.Name(), ".s") {
			continue
		}
		if ok, _ := ctx.MatchFile(p.dir, e.Name()); !ok {
			continue
		}
		b, err := os.ReadFile(filepath.Join(p.dir, e.Name()))
		if err != nil {
			continue
		}
		var cur *types.Func
		for _, line := range strings.Split(string(b), "\n") {
			if m := reAsmText.FindStringSubmatch(line); m != nil {
				cur, _ = p.pkg.Scope().Lookup(m[1]).(*types.Func)
				continue
			}
			if cur == nil {
				continue
			}
			if i := strings.Index(line, "//"); i >= 0 {
				line = line[:i]
			}
			for _, m := range reAsmSym.FindAllStringSubmatch(line, -1) {
				if v, ok := p.pkg.Scope().Lookup(m[1]).(*types.Var); ok {
					dup := false
					for _, x := range asmGlobals[cur] {
						if x == v {
							dup = true
						}
					}
					if !dup {
						asmGlobals[cur] = append(asmGlobals[cur], v)
						for _, fv := range allFieldVars(v) {
							mutableAll[fv] = true
						}
					}
				}
			}
		}
	}
}

func instrumentSched(p *pkgInfo, out string, overlay map[string]string, report map[string]any) {
	mutable := mutableAll
	allVars := []*types.Var{}
	for _, name := range p.pkg.Scope().Names() {
		if v, ok := p.pkg.Scope().Lookup(name).(*types.Var); ok {
			allVars = append(allVars, v)
		}
	}
	// variables holding sync objects directly are never "accessed" (their
	// operations are points); a struct that contains one plus data is mutable data.
	var mutNames, roNames []string
	for _, v := range allVars {
		mut := mutable[v]
		for _, fv := range fieldVars[v] {
			if mutable[fv] && !isSyncType(fv.Type()) {
				mut = true
				mutNames = append(mutNames, fv.Name())
			}
		}
		if mut && !isSyncType(v.Type()) {
			if len(fieldVars[v]) == 0 {
				mutNames = append(mutNames, v.Name())
			}
		} else {
			roNames = append(roNames, v.Name())
		}
	}
	sort.Strings(mutNames)
	report[p.path] = map[string]any{"mutable_globals": mutNames, "read_only_globals": roNames}

	// 2. rewrite files (not in plain mode: the library then runs uncontrolled)
	nAccess := 0
	for i, f := range p.files {
		if plainMode {
			break
		}
		usedSched := false
		// imports
		for _, im := range f.Imports {
			switch strings.Trim(im.Path.Value, `"`) {
			case "sync":
				im.Path.Value = fmt.Sprintf("%q", modPath+"/vsync")
				if im.Name == nil {
					im.Name = ast.NewIdent("sync")
				}
			case "sync/atomic":
				im.Path.Value = fmt.Sprintf("%q", modPath+"/vsync/atomic")
			}
		}
		var rewriteBlock func(list []ast.Stmt) []ast.Stmt
		var curAliases map[types.Object]*types.Var
		accessCalls := func(st ast.Node, skipBodies bool) []ast.Stmt {
			seen := map[string]bool{}
			var calls []ast.Stmt
			for _, m := range p.mentionsIn(st, skipBodies, curAliases) {
				if !mutable[m.obj] || isSyncType(m.obj.Type()) {
					continue
				}
				key := fmt.Sprint(m.obj.Name(), m.write)
				if seen[key] {
					continue
				}
				seen[key] = true
				pos := fset.Position(st.Pos())
				site := fmt.Sprintf("%s:%d", filepath.Base(pos.Filename), pos.Line)
				w := "false"
				if m.write {
					w = "true"
				}
				calls = append(calls, &ast.ExprStmt{X: &ast.CallExpr{
					Fun: &ast.SelectorExpr{X: ast.NewIdent("vsched"), Sel: ast.NewIdent("Access")},
					Args: []ast.Expr{
						&ast.BasicLit{Kind: token.STRING, Value: fmt.Sprintf("%q", m.obj.Pkg().Name()+"."+m.obj.Name())},
						ast.NewIdent(w),
						&ast.BasicLit{Kind: token.STRING, Value: fmt.Sprintf("%q", site)},
					}}})
				usedSched = true
				nAccess++
			}
			return calls
		}
		var rewriteStmt func(st ast.Stmt)
		rewriteStmt = func(st ast.Stmt) {
			// descend into nested blocks and function literals
			ast.Inspect(st, func(x ast.Node) bool {
				switch v := x.(type) {
				case *ast.BlockStmt:
					v.List = rewriteBlock(v.List)
					return false
				case *ast.FuncLit:
					v.Body.List = rewriteBlock(v.Body.List)
					return false
				case *ast.CaseClause:
					v.Body = rewriteBlock(v.Body)
					return false
				case *ast.CommClause:
					v.Body = rewriteBlock(v.Body)
					return false
				}
				return true
			})
		}
		rewriteBlock = func(list []ast.Stmt) []ast.Stmt {
			var outl []ast.Stmt
			for _, st := range list {
				// mentions in the statement header (not in nested blocks)
				calls := accessCalls(st, true)
				switch cl := st.(type) {
				case *ast.CaseClause, *ast.CommClause:
					// nothing may be inserted between the clauses of a switch:
					// clause bodies are rewritten by the recursion below, clause
					// headers are accounted for before the switch statement
					calls = nil
				case *ast.SwitchStmt:
					for _, c := range cl.Body.List {
						if cc, ok := c.(*ast.CaseClause); ok {
							for _, x := range cc.List {
								calls = append(calls, accessCalls(x, true)...)
							}
						}
					}
				}
				rewriteStmt(st)
				// loops: the header is re-evaluated on every iteration
				if fs, ok := st.(*ast.ForStmt); ok && len(calls) > 0 {
					fs.Body.List = append(append([]ast.Stmt{}, calls...), fs.Body.List...)
				}
				if ls, ok := st.(*ast.LabeledStmt); ok {
					_ = ls
				}
				outl = append(outl, calls...)
				outl = append(outl, st)
			}
			return outl
		}
		for _, d := range f.Decls {
			if fd, ok := d.(*ast.FuncDecl); ok && fd.Body != nil {
				if rewriteGoStmts(fd.Body) {
					usedSched = true
				}
				curAliases = p.aliasesIn(fd.Body)
				fd.Body.List = rewriteBlock(fd.Body.List)
				// execution counter (not a scheduling point): work duplicated or
				// skipped under some schedule shows up in the per-function profile
				name := fd.Name.Name
				if fd.Recv != nil && len(fd.Recv.List) > 0 {
					name = types.ExprString(fd.Recv.List[0].Type) + "." + name
				}
				id := len(funcTable)
				funcTable = append(funcTable, p.pkg.Name()+"."+name)
				enter := &ast.ExprStmt{X: &ast.CallExpr{
					Fun:  &ast.SelectorExpr{X: ast.NewIdent("vsched"), Sel: ast.NewIdent("Enter")},
					Args: []ast.Expr{&ast.BasicLit{Kind: token.INT, Value: fmt.Sprint(id)}}}}
				leave := &ast.DeferStmt{Call: &ast.CallExpr{
					Fun:  &ast.SelectorExpr{X: ast.NewIdent("vsched"), Sel: ast.NewIdent("Leave")},
					Args: []ast.Expr{&ast.BasicLit{Kind: token.INT, Value: fmt.Sprint(id)}}}}
				fd.Body.List = append([]ast.Stmt{enter, leave}, fd.Body.List...)
				usedSched = true
			}
		}
		if usedSched {
			addImport(f, "vsched", modPath+"/vsched")
		}
		writeFile(p, i, f, out, overlay)
	}
	report[p.path].(map[string]any)["access_points_inserted"] = nAccess

	// 3. snapshot / restore of every package-level variable
	var sb strings.Builder
	imports := map[string]string{}
	qual := func(o *types.Package) string {
		if o == p.pkg {
			return ""
		}
		imports[o.Path()] = o.Name()
		return o.Name()
	}
	var decl, snap, restore, ptrs strings.Builder
	sort.Slice(allVars, func(a, b int) bool { return allVars[a].Name() < allVars[b].Name() })
	for _, v := range allVars {
		n := v.Name()
		if n == "_" || strings.HasPrefix(n, "verif") {
			continue
		}
		ts := types.TypeString(v.Type(), qual)
		ts = rewriteSyncTypeString(ts)
		fmt.Fprintf(&decl, "var verifSnap_%s %s\n", n, ts)
		fmt.Fprintf(&snap, "\tverifSnap_%s = %s\n", n, n)
		fmt.Fprintf(&restore, "\t%s = verifSnap_%s\n", n, n)
		fmt.Fprintf(&ptrs, "\t\t%q: &%s,\n", p.pkg.Name()+"."+n, n)
		if pt, ok := v.Type().(*types.Pointer); ok {
			es := rewriteSyncTypeString(types.TypeString(pt.Elem(), qual))
			fmt.Fprintf(&decl, "var verifSnapVal_%s %s\n", n, es)
			fmt.Fprintf(&snap, "\tif %s != nil {\n\t\tverifSnapVal_%s = *%s\n\t}\n", n, n, n)
			fmt.Fprintf(&restore, "\tif %s != nil {\n\t\t*%s = verifSnapVal_%s\n\t}\n", n, n, n)
		}
	}
	fmt.Fprintf(&sb, "// Code generated by /verif instr (sched mode). Not part of the repository.\n\npackage %s\n\n", p.pkg.Name())
	if p.rel == "" {
		for i, x := range extraPkgs {
			imports[x.path] = fmt.Sprintf("verifx%d", i)
		}
	}
	if len(imports) > 0 {
		sb.WriteString("import (\n")
		var ips []string
		for ip := range imports {
			ips = append(ips, ip)
		}
		sort.Strings(ips)
		for _, ip := range ips {
			ipr := ip
			if plainMode {
				// real sync packages
			} else if ip == "sync" {
				ipr = modPath + "/vsync"
			} else if ip == "sync/atomic" {
				ipr = modPath + "/vsync/atomic"
			}
			fmt.Fprintf(&sb, "\t%s %q\n", imports[ip], ipr)
		}
		sb.WriteString(")\n\n")
	}
	sb.WriteString(decl.String())
	chainSnap, chainRestore, chainGlobals := "", "", ""
	if p.rel == "" {
		for i := range extraPkgs {
			chainSnap += fmt.Sprintf("\tverifx%d.VerifSnapshot()\n", i)
			chainRestore += fmt.Sprintf("\tverifx%d.VerifRestore()\n", i)
			chainGlobals += fmt.Sprintf("\tfor k, v := range verifx%d.VerifGlobals() {\n\t\tm[k] = v\n\t}\n", i)
		}
	}
	fmt.Fprintf(&sb, "\n// VerifSnapshot records the cold state of every package-level variable.\nfunc VerifSnapshot() {\n%s%s}\n", snap.String(), chainSnap)
	fmt.Fprintf(&sb, "\n// VerifRestore puts every package-level variable back into the recorded state.\nfunc VerifRestore() {\n%s%s}\n", restore.String(), chainRestore)
	fmt.Fprintf(&sb, "\n// VerifGlobals returns pointers to every package-level variable.\nfunc VerifGlobals() map[string]any {\n\tm := map[string]any{\n%s\t}\n%s\treturn m\n}\n", ptrs.String(), chainGlobals)
	dst := filepath.Join(out, p.rel, "verif_snapshot.go")
	os.MkdirAll(filepath.Dir(dst), 0o755)
	if err := os.WriteFile(dst, []byte(sb.String()), 0o644); err != nil {
		die("%v", err)
	}
	overlay[filepath.Join(p.dir, "verif_snapshot.go")] = dst
}

func rewriteSyncTypeString(s string) string {
	return s
}
