#!/bin/bash
# tools/neutralcheck.sh <Nxx> <i> [checks]: a sub-agent's BEHAVIOUR-PRESERVING change (scratch worktree
# /tmp/seed/<Nxx>, deliverables in _out4/): confirm it builds and passes the suite in both build
# configurations, run every quick check against it (all must exit 0), store it under /verif/neutral/<Nxx>-<i>/.
set -u
id="$1"; i="$2"; checks="${3:-C01 C02 C03 C04 C05 C06 C07 C08 C09 C10 C11 C12 C13 C14 C15 C16 C17 C18 C19 C20}"
W=/tmp/seed/$id; O=$W/_out4
export GOFLAGS=-mod=mod GOPROXY=off GOSUMDB=off GOTOOLCHAIN=local
[ -f $O/patch$i.diff ] || { echo "no patch$i"; exit 2; }
git -C $W checkout -q -- . ; git -C $W clean -qfd -e "_out*"
git -C $W apply $O/patch$i.diff || { echo "patch does not apply"; exit 2; }
( cd $W && go build ./... && go test -vet=off -count=1 ./... >/tmp/seed/suite.log 2>&1 ); suite=$?
( cd $W && go build -tags purego ./... && go test -vet=off -count=1 -tags purego ./... >/tmp/seed/suite_purego.log 2>&1 ); suitep=$?
echo "$id-$i: suite rc=$suite, purego suite rc=$suitep (want 0, 0)"
verdicts=""
for c in ${checks//,/ }; do
  out="$(VERIF_REPO=$W VERIF_OUT=/tmp/seed/out_$id /verif/check $c quick 2>&1)"; rc=$?
  line="$(echo "$out" | grep -m1 -E '^  sub=|VIOLATION|^FATAL|error' | cut -c1-300)"
  [ $rc -ne 0 ] && { echo "   check $c rc=$rc $line"; echo "$out" | tail -15 > /tmp/seed/neutral_${id}_${i}_$c.log; }
  verdicts="$verdicts $c:rc=$rc"
done
echo "   verdicts:$verdicts"
mkdir -p /verif/neutral/$id-$i
cp $O/patch$i.diff /verif/neutral/$id-$i/patch.diff; cp $O/note$i.txt /verif/neutral/$id-$i/note.txt 2>/dev/null
python3 - "$id" "$i" "$suite" "$suitep" "$verdicts" <<'PY'
import json,sys
id,i,su,sp,ver=sys.argv[1:6]
note=open('/verif/neutral/%s-%s/note.txt'%(id,i)).read()
meta={"kind":"behaviour-preserving change (silent control): every check must exit 0","seed":int(i),
 "origin":"independent sub-agent given the property texts and a scratch worktree, asked for a substantial internal change that preserves every property",
 "agent_note":note.strip(),
 "confirmed_by_me":{"suite_passes":su=="0","purego_suite_passes":sp=="0"},
 "my_checks_quick":ver.strip()}
json.dump(meta,open('/verif/neutral/%s-%s/meta.json'%(id,i),'w'),indent=1)
PY
git -C $W checkout -q -- . ; git -C $W clean -qfd -e "_out*"; rm -rf /tmp/seed/out_$id
