package checks

import (
	"bytes"
	"math/big"

	"filippo.io/edwards25519/field"
	"verif/harness/alpha"
	"verif/harness/core"
	"verif/harness/ref"
)

// C10 - field encodings and predicates depend only on the value mod p.

type feBytesCase struct {
	A elemIn `json:"a"`
}

var subC10Bytes = core.NewSub("C10/bytes", func(w *core.Worker, c feBytesCase) *core.Fail {
	e := c.A.elem()
	e0 := e
	got := e.Bytes()
	want := ref.LE32(c.A.value())
	if e != e0 && ref.FRed(alpha.LimbValue(alpha.LimbsOf(&e))).Cmp(c.A.value()) != 0 {
		return core.Failf("Bytes changed the value of the element")
	}
	if len(got) != 32 || !bytes.Equal(got, want[:]) {
		return core.Failf("Bytes(%v)=%x want %x", c.A.L, got, want[:])
	}
	w.Distinct("nontrivial:encodings", got)
	neg := int(c.A.value().Bit(0))
	if e.IsNegative() != neg {
		return core.Failf("IsNegative(%v)=%d want %d", c.A.L, e.IsNegative(), neg)
	}
	if e.Equal(&e) != 1 {
		return core.Failf("Equal(v,v) != 1 for %v", c.A.L)
	}
	// round trip
	var r field.Element
	if _, err := r.SetBytes(got); err != nil || r.Equal(&e) != 1 {
		return core.Failf("SetBytes(Bytes(v)) != v for %v", c.A.L)
	}
	return nil
})

type fePairCase struct {
	A elemIn `json:"a"`
	B elemIn `json:"b"`
}

var subC10Equal = core.NewSub("C10/equal", func(w *core.Worker, c fePairCase) *core.Fail {
	a, b := c.A.elem(), c.B.elem()
	exp := 0
	if c.A.value().Cmp(c.B.value()) == 0 {
		exp = 1
	}
	if got := a.Equal(&b); got != exp {
		return core.Failf("Equal(%v,%v)=%d want %d", c.A.L, c.B.L, got, exp)
	}
	if got := b.Equal(&a); got != exp {
		return core.Failf("Equal(%v,%v)=%d want %d (swapped)", c.B.L, c.A.L, got, exp)
	}
	w.Distinct("equal-outcomes", []byte{byte(exp)})
	return nil
})

type feSelCase struct {
	A     elemIn `json:"a"`
	B     elemIn `json:"b"`
	Cond  int    `json:"cond"`
	Alias int    `json:"alias"` // 0 distinct receiver, 1 v=a, 2 v=b
}

var subC10Select = core.NewSub("C10/select-swap", func(w *core.Worker, c feSelCase) *core.Fail {
	a, b := c.A.elem(), c.B.elem()
	var v field.Element
	v.One()
	recv := &v
	switch c.Alias {
	case 1:
		recv = &a
	case 2:
		recv = &b
	}
	want := c.B.L
	if c.Cond == 1 {
		want = c.A.L
	}
	if ret := recv.Select(&a, &b, c.Cond); ret != recv {
		return core.Failf("Select did not return receiver")
	}
	if alpha.LimbsOf(recv) != want {
		return core.Failf("Select(cond=%d, alias=%d) limbs %v want %v", c.Cond, c.Alias, alpha.LimbsOf(recv), want)
	}
	// ("exactly choose": the result is checked limb for limb above; operands
	// staying untouched is C11's business)
	// Swap
	a, b = c.A.elem(), c.B.elem()
	a.Swap(&b, c.Cond)
	wa, wb := c.A.L, c.B.L
	if c.Cond == 1 {
		wa, wb = wb, wa
	}
	if alpha.LimbsOf(&a) != wa || alpha.LimbsOf(&b) != wb {
		return core.Failf("Swap(cond=%d) gave %v,%v want %v,%v", c.Cond, alpha.LimbsOf(&a), alpha.LimbsOf(&b), wa, wb)
	}
	// Swap with itself is a no-op
	a = c.A.elem()
	a.Swap(&a, c.Cond)
	if alpha.LimbsOf(&a) != c.A.L {
		return core.Failf("Swap(v,v,cond=%d) changed v", c.Cond)
	}
	w.Distinct("nontrivial:select", append([]byte{byte(c.Cond)}, recv.Bytes()...))
	return nil
})

var subC10Set = core.NewSub("C10/setters", func(w *core.Worker, c bytesCase) *core.Fail {
	in, full := withSlack(c.In)
	var prior field.Element
	prior.Mult32(new(field.Element).One(), 0xffffffff)
	v := prior
	var ret *field.Element
	var err error
	var wantOK bool
	var want *big.Int
	switch c.Fn {
	case "SetBytes":
		ret, err = v.SetBytes(in)
		wantOK = len(c.In) == 32
		if wantOK {
			want = ref.FDecode(c.In)
		}
	case "SetWideBytes":
		ret, err = v.SetWideBytes(in)
		wantOK = len(c.In) == 64
		if wantOK {
			want = ref.FRed(ref.FromLE(c.In))
		}
	default:
		panic("bad fn")
	}
	_ = full
	if !wantOK {
		w.Distinct("accept", []byte{0})
		if err == nil || ret != nil {
			return core.Failf("%s accepted input of length %d", c.Fn, len(c.In))
		}
		return nil // (receiver atomicity is C14's business)
	}
	w.Distinct("accept", []byte{1})
	if err != nil || ret != &v {
		return core.Failf("%s rejected valid input %x: %v", c.Fn, []byte(c.In), err)
	}
	got := v.Bytes()
	exp := ref.LE32(want)
	if !bytes.Equal(got, exp[:]) {
		return core.Failf("%s(%x).Bytes()=%x want %x", c.Fn, []byte(c.In), got, exp[:])
	}
	if !alpha.InBox(alpha.LimbsOf(&v), alpha.DefaultBox) {
		w.Distinct("outside-box", got)
	}
	w.Distinct("nontrivial:encodings", got)
	return nil
})

func init() { register("C10", "exploration", runC10) }

func runC10(ctx *core.Ctx) {
	ctx.Rule("Bytes/IsNegative/Equal on every form of alphabet F, on the corner lattice L(K) of the closed box and on every limb form of every integer in the fold windows [p-40,p+40] and [2^255-40,2^255+19*2^14]; Equal on all ordered pairs of forms of F and of window values; Select/Swap for cond in {0,1} x pairs x aliasing, compared limb-for-limb; SetBytes on one-byte balls, two-byte products at limb-straddling byte pairs, bit 255 both ways, all lengths 0..130; SetWideBytes on one-byte balls of 64-byte bases, bit 255/511 combinations. distinct_nontrivial = distinct encodings produced")
	ctx.Assume("math/big is correct", "limb vectors outside the closed box are not required to work and are not injected")
	// Bytes on forms, lattice, windows
	var ins []elemIn
	for _, f := range fieldForms(smoke(ctx)) {
		ins = append(ins, inOf(&f.E))
	}
	two255 := new(big.Int).Lsh(big.NewInt(1), 255)
	var window []*big.Int
	for d := int64(-40); d <= 40; d++ {
		window = append(window, new(big.Int).Add(ref.P, big.NewInt(d)))
	}
	for d := int64(-40); d <= 19<<14; d++ {
		if d > 60 && d < 19<<14-40 && d%tierN64(ctx, 997, 61) != 0 {
			continue
		}
		window = append(window, new(big.Int).Add(two255, big.NewInt(d)))
	}
	var windowIns []elemIn
	for _, v := range window {
		for _, l := range intForms(v) {
			windowIns = append(windowIns, elemIn{l})
		}
	}
	ins = append(ins, windowIns...)
	ctx.Extra("fold_window", map[string]any{"integers": len(window), "limb_forms": len(windowIns)})
	subC10Bytes.RunList(ctx, func() []feBytesCase {
		o := make([]feBytesCase, len(ins))
		for i := range ins {
			o[i] = feBytesCase{ins[i]}
		}
		return o
	}())
	k := tierN(ctx, 5, 7)
	subC10Bytes.Run(ctx, latticeSize(k), func(i int) feBytesCase { return feBytesCase{elemIn{latticeAt(k, i)}} })

	// Equal on pairs: forms of F plus the near-p window (first 81*forms)
	eqIns := append([]elemIn{}, ins[:len(ins)-len(windowIns)]...)
	for i, w := range windowIns {
		if i < 400 {
			eqIns = append(eqIns, w)
		}
	}
	ne := len(eqIns)
	subC10Equal.Run(ctx, ne*ne, func(i int) fePairCase { return fePairCase{eqIns[i/ne], eqIns[i%ne]} })
	// Equal on neighbours differing in one bit of the encoding (every byte position matters)
	var nb []fePairCase
	for _, base := range []*big.Int{big.NewInt(0), alpha.FieldValues(true)[13], new(big.Int).Sub(ref.P, big.NewInt(1))} {
		for bit := uint(0); bit < 255; bit++ {
			o := ref.FAdd(base, new(big.Int).Lsh(big.NewInt(1), bit))
			nb = append(nb, fePairCase{elemIn{alpha.CanonLimbs(base)}, elemIn{alpha.CanonLimbs(o)}})
		}
	}
	subC10Equal.RunList(ctx, nb)

	// Select / Swap
	sel := eqIns
	if len(sel) > 120 {
		sel = sel[:120]
	}
	ns := len(sel)
	subC10Select.Run(ctx, ns*ns*6, func(i int) feSelCase {
		cond := i % 2
		al := (i / 2) % 3
		j := i / 6
		return feSelCase{sel[j/ns], sel[j%ns], cond, al}
	})

	// setters
	var cases []bytesCase
	add := func(fn string, ins [][]byte) {
		for _, in := range ins {
			cases = append(cases, bytesCase{fn, Hex(in)})
		}
	}
	le := func(v *big.Int) []byte { b := ref.LE32(v); return b[:] }
	bases := [][]byte{make([]byte, 32), bytes.Repeat([]byte{0xff}, 32), le(ref.P), le(new(big.Int).Sub(ref.P, big.NewInt(1))), le(alpha.FieldValues(true)[13])}
	for _, b := range bases {
		add("SetBytes", oneByteBall(b))
	}
	pairs := [][2]int{{6, 7}, {12, 13}, {19, 20}, {25, 26}, {30, 31}}
	if smoke(ctx) {
		pairs = pairs[:0]
		// quick: strided products
		for _, pr := range [][2]int{{6, 7}, {12, 13}, {19, 20}, {25, 26}, {30, 31}} {
			for x := 0; x < 256; x += 5 {
				for y := 0; y < 256; y += 3 {
					b := bytes.Repeat([]byte{0x5a}, 32)
					b[pr[0]], b[pr[1]] = byte(x), byte(y)
					cases = append(cases, bytesCase{"SetBytes", Hex(b)})
				}
			}
		}
	}
	for _, pr := range pairs {
		for x := 0; x < 256; x++ {
			for y := 0; y < 256; y++ {
				b := bytes.Repeat([]byte{0x5a}, 32)
				b[pr[0]], b[pr[1]] = byte(x), byte(y)
				cases = append(cases, bytesCase{"SetBytes", Hex(b)})
			}
		}
	}
	// all 19 non-canonical values with bit 255 both ways
	for d := int64(0); d < 19; d++ {
		b := le(new(big.Int).Add(ref.P, big.NewInt(d)))
		cases = append(cases, bytesCase{"SetBytes", Hex(b)})
		b2 := append([]byte{}, b...)
		b2[31] |= 0x80
		cases = append(cases, bytesCase{"SetBytes", Hex(b2)})
	}
	add("SetBytes", lengthCases(32))
	cat := func(a, b []byte) []byte { return append(append([]byte{}, a...), b...) }
	wb := [][]byte{make([]byte, 64), bytes.Repeat([]byte{0xff}, 64), cat(le(ref.P), le(ref.P)), cat(le(alpha.FieldValues(true)[13]), le(alpha.FieldValues(true)[14]))}
	if smoke(ctx) {
		wb = wb[:3]
	}
	for _, b := range wb {
		add("SetWideBytes", oneByteBall(b))
	}
	for fill := 0; fill < 64; fill++ {
		for msb := 0; msb < 4; msb++ {
			b := bytes.Repeat([]byte{byte(fill * 4)}, 64)
			b[31] = b[31]&0x7f | byte(msb&1)<<7
			b[63] = b[63]&0x7f | byte(msb>>1)<<7
			cases = append(cases, bytesCase{"SetWideBytes", Hex(b)})
		}
	}
	add("SetWideBytes", lengthCases(64))
	subC10Set.RunList(ctx, cases)
	if ctx.DistinctCount("equal-outcomes") != 2 || ctx.DistinctCount("accept") != 2 {
		ctx.Vacuous("C10: vacuous coverage")
	}
	if n := ctx.DistinctCount("outside-box"); n > 0 {
		ctx.Note("setters produced limbs outside the model box for some inputs (informational)")
		ctx.Extra("setter_outputs_outside_box", n)
	}
}

func tierN64(ctx *core.Ctx, q, t int64) int64 {
	if smoke(ctx) {
		return q
	}
	return t
}
