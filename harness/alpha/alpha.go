// Package alpha builds the structured finite alphabets of DESIGN.md section 2
// and converts between model values (math/big) and implementation values.
package alpha

import (
	"crypto/sha512"
	"fmt"
	"math/big"
	"reflect"
	"sort"
	"unsafe"

	"filippo.io/edwards25519"
	"filippo.io/edwards25519/field"
	"verif/harness/limbmodel"
	"verif/harness/ref"
)

// ---------- layout guards (unsafe access to private limbs) ----------

var ElemLayoutOK, PointLayoutOK, ScalarLayoutOK bool

// PointExtraFields: the Point struct carries state besides its four
// coordinates (a flag, a memo...). Such a Point is never fabricated from raw
// memory alone: it is first produced by the library's own constructor, so that
// whatever the extra state means is set the way the library sets it.
var PointExtraFields bool

func init() {
	et := reflect.TypeOf(field.Element{})
	// the five limbs are located by name (l0..l4, uint64); further fields a
	// changed tree may add are tolerated and left zero-valued on injection
	foundLimbs := 0
	for i := 0; i < et.NumField(); i++ {
		f := et.Field(i)
		for k, n := range []string{"l0", "l1", "l2", "l3", "l4"} {
			if f.Name == n && f.Type.Kind() == reflect.Uint64 {
				elemOff[k] = f.Offset
				foundLimbs++
			}
		}
	}
	ElemLayoutOK = foundLimbs == 5
	pt := reflect.TypeOf(edwards25519.Point{})
	// the four coordinates are located by name; other fields (flags, caches a
	// changed tree may add) are tolerated and left zero-valued on injection
	PointLayoutOK = ElemLayoutOK
	found := 0
	for i := 0; i < pt.NumField(); i++ {
		f := pt.Field(i)
		coord := false
		for k, n := range []string{"x", "y", "z", "t"} {
			if f.Name == n {
				if f.Type != et {
					PointLayoutOK = false
				}
				pointOff[k] = f.Offset
				found++
				coord = true
			}
		}
		if !coord && f.Type.Size() > 0 {
			PointExtraFields = true
		}
	}
	if found != 4 {
		PointLayoutOK = false
	}
	st := reflect.TypeOf(edwards25519.Scalar{})
	ScalarLayoutOK = st.Size() > 0
}

type Limbs = [5]uint64

var elemOff [5]uintptr

func ElemFromLimbs(l Limbs) field.Element {
	if !ElemLayoutOK {
		panic("field.Element layout changed; limb injection unavailable")
	}
	var e field.Element
	for k := 0; k < 5; k++ {
		*(*uint64)(unsafe.Add(unsafe.Pointer(&e), elemOff[k])) = l[k]
	}
	return e
}

func LimbsOf(e *field.Element) Limbs {
	if !ElemLayoutOK {
		panic("field.Element layout changed")
	}
	var l Limbs
	for k := 0; k < 5; k++ {
		l[k] = *(*uint64)(unsafe.Add(unsafe.Pointer(e), elemOff[k]))
	}
	return l
}

// LimbValue is the integer a limb vector denotes (not reduced).
func LimbValue(l Limbs) *big.Int {
	v := new(big.Int)
	for i := 4; i >= 0; i-- {
		v.Lsh(v, 51)
		v.Add(v, new(big.Int).SetUint64(l[i]))
	}
	return v
}

var pointOff [4]uintptr

// RawPoint is the complete memory image of a Point value (comparable).
type RawPoint string

// PointRaw returns the raw bytes of the whole Point struct, whatever its
// layout, for before/after comparisons.
func PointRaw(p *edwards25519.Point) RawPoint {
	return RawPoint(unsafe.Slice((*byte)(unsafe.Pointer(p)), unsafe.Sizeof(*p)))
}

// PointLimbs returns the limbs of x, y, z, t (located by field name; if the
// layout is unknown, read through ExtendedCoordinates).
func PointLimbs(p *edwards25519.Point) (out [20]uint64) {
	if PointLayoutOK {
		for k := 0; k < 4; k++ {
			l := LimbsOf((*field.Element)(unsafe.Add(unsafe.Pointer(p), pointOff[k])))
			copy(out[5*k:], l[:])
		}
		return
	}
	defer func() { recover() }()
	X, Y, Z, T := p.ExtendedCoordinates()
	for k, e := range []*field.Element{X, Y, Z, T} {
		l := LimbsOf(e)
		copy(out[5*k:], l[:])
	}
	return
}

// PointFromLimbs builds a Point whose coordinates have exactly these limbs
// (every other field zero-valued).
func PointFromLimbs(r [20]uint64) *edwards25519.Point {
	if !PointLayoutOK {
		panic("Point layout unknown")
	}
	p := new(edwards25519.Point)
	for k := 0; k < 4; k++ {
		var l Limbs
		copy(l[:], r[5*k:5*k+5])
		*(*field.Element)(unsafe.Add(unsafe.Pointer(p), pointOff[k])) = ElemFromLimbs(l)
	}
	return p
}

// RawScalar is the complete memory image of a Scalar value (comparable).
type RawScalar string

func ScalarRaw(s *edwards25519.Scalar) RawScalar {
	return RawScalar(unsafe.Slice((*byte)(unsafe.Pointer(s)), unsafe.Sizeof(*s)))
}

// ---------- field elements ----------

const Mask51 = (uint64(1) << 51) - 1

func CanonLimbs(v *big.Int) Limbs {
	r := ref.FRed(v)
	var l Limbs
	m := new(big.Int).SetUint64(Mask51)
	t := new(big.Int).Set(r)
	for i := 0; i < 5; i++ {
		l[i] = new(big.Int).And(t, m).Uint64()
		t.Rsh(t, 51)
	}
	return l
}

// ElemCanon builds the element through the public API (SetBytes of the
// canonical encoding).
func ElemCanon(v *big.Int) field.Element {
	b := ref.LE32(ref.FRed(v))
	var e field.Element
	if _, err := e.SetBytes(b[:]); err != nil {
		panic(err)
	}
	return e
}

// ElemValue reads the value of an element through its limbs if possible,
// else through Bytes().
func ElemValue(e *field.Element) *big.Int {
	if ElemLayoutOK {
		return ref.FRed(LimbValue(LimbsOf(e)))
	}
	return ref.FromLE(e.Bytes())
}

// Box is the closed representation bound (inclusive per-limb maxima) used to
// confine injected limb vectors; set by the limb model (C09) or DefaultBox.
type Box = Limbs

// DefaultBox is the closed box: the least fixpoint of the limb model
// (limb0 <= 2^51+81604534252, limb1 <= 2^51+2^32+155646, others <= 2^51+2^32+8190).
var DefaultBox = func() Box { b, _, _, _ := limbmodel.Fixpoint(); return b.Uint64() }()

func InBox(l Limbs, b Box) bool {
	for i := 0; i < 5; i++ {
		if l[i] > b[i] {
			return false
		}
	}
	return true
}

// BorrowForms enumerates every limb vector inside the box that denotes
// exactly value v or v+p or v+2p... obtained from the canonical limbs by
// moving one unit of 2^51 between adjacent limbs (32 patterns) and optionally
// adding p; all results are verified to denote v mod p.
func BorrowForms(v *big.Int, box Box) []Limbs {
	c := CanonLimbs(v)
	seen := map[Limbs]bool{}
	var out []Limbs
	pl := Limbs{Mask51 - 18, Mask51, Mask51, Mask51, Mask51}
	for addP := 0; addP < 2; addP++ {
		for pat := 0; pat < 32; pat++ {
			var s [5]int64
			ok := true
			for i := 0; i < 5; i++ {
				x := new(big.Int).SetUint64(c[i])
				if addP == 1 {
					x.Add(x, new(big.Int).SetUint64(pl[i]))
				}
				if pat>>i&1 == 1 {
					x.Add(x, new(big.Int).Lsh(big.NewInt(1), 51))
				}
				prev := (i + 4) % 5
				if pat>>prev&1 == 1 {
					if i == 0 {
						x.Sub(x, big.NewInt(19))
					} else {
						x.Sub(x, big.NewInt(1))
					}
				}
				if x.Sign() < 0 || !x.IsUint64() {
					ok = false
					break
				}
				s[i] = int64(x.Uint64())
			}
			if !ok {
				continue
			}
			var l Limbs
			for i := range l {
				l[i] = uint64(s[i])
			}
			if !InBox(l, box) || seen[l] {
				continue
			}
			if ref.FRed(LimbValue(l)).Cmp(ref.FRed(v)) != 0 {
				panic("BorrowForms produced a different value")
			}
			seen[l] = true
			out = append(out, l)
		}
	}
	return out
}

// ElemRecipes returns representations of v produced through the public API
// only. Index 0 is canonical.
func ElemRecipes(v *big.Int) []field.Element {
	c := ElemCanon(v)
	var zero, one field.Element
	one.One()
	out := []field.Element{c}
	var e field.Element
	e.Subtract(&c, &zero) // v+2p before the carry
	out = append(out, e)
	var n field.Element
	n.Negate(&c)
	e.Negate(&n)
	out = append(out, e)
	e.Multiply(&c, &one)
	out = append(out, e)
	e.Mult32(&c, 1)
	out = append(out, e)
	// Mult32 chain: v = (v/6)*2*3, largest reachable excess without carry
	w := ElemCanon(ref.FDiv(v, big.NewInt(6)))
	e.Mult32(&w, 2)
	e.Mult32(&e, 3)
	out = append(out, e)
	// v = (v / (2^32-1)) * (2^32-1)
	w = ElemCanon(ref.FDiv(v, big.NewInt(0xffffffff)))
	e.Mult32(&w, 0xffffffff)
	out = append(out, e)
	// non-canonical byte input when v < 19
	if ref.FRed(v).Cmp(big.NewInt(19)) < 0 {
		b := ref.LE32(new(big.Int).Add(ref.FRed(v), ref.P))
		var f field.Element
		f.SetBytes(b[:])
		out = append(out, f)
	}
	return out
}

// ElemForms = API recipes plus (if the layout allows) injected borrow forms,
// de-duplicated on limbs.
func ElemForms(v *big.Int) []field.Element {
	out := ElemRecipes(v)
	if !ElemLayoutOK {
		return out
	}
	seen := map[Limbs]bool{}
	var ded []field.Element
	for i := range out {
		l := LimbsOf(&out[i])
		if !seen[l] {
			seen[l] = true
			ded = append(ded, out[i])
		}
	}
	for _, l := range BorrowForms(v, DefaultBox) {
		if !seen[l] {
			seen[l] = true
			ded = append(ded, ElemFromLimbs(l))
		}
	}
	return ded
}

func hashInt(tag string, i int) *big.Int {
	h := sha512.Sum512([]byte(fmt.Sprintf("verif-%s-%d", tag, i)))
	return new(big.Int).SetBytes(h[:])
}

func pow2(k uint) *big.Int { return new(big.Int).Lsh(big.NewInt(1), k) }

func dedupInts(in []*big.Int) []*big.Int {
	seen := map[string]bool{}
	var out []*big.Int
	for _, v := range in {
		k := v.Text(16)
		if !seen[k] {
			seen[k] = true
			out = append(out, v)
		}
	}
	return out
}

// FieldValues is alphabet F (quick: the first ~24).
func FieldValues(quick bool) []*big.Int {
	p := ref.P
	sub := func(a *big.Int, n int64) *big.Int { return new(big.Int).Sub(a, big.NewInt(n)) }
	half := new(big.Int).Rsh(sub(p, 1), 1)
	v := []*big.Int{
		big.NewInt(0), big.NewInt(1), big.NewInt(2), sub(p, 1), ref.SqrtM1, ref.FNeg(ref.SqrtM1),
		ref.D, big.NewInt(19), big.NewInt(18), sub(p, 19), sub(p, 2), half, new(big.Int).Add(half, big.NewInt(1)),
		ref.FRed(hashInt("F", 0)), ref.FRed(hashInt("F", 1)), ref.FRed(hashInt("F", 2)),
		pow2(51), sub(pow2(51), 1), pow2(254), sub(pow2(255), 20),
		ref.FAdd(ref.D, ref.D), ref.FNeg(ref.D), big.NewInt(121665), big.NewInt(121666),
	}
	if quick {
		return dedupInts(v)
	}
	v = append(v, big.NewInt(3), big.NewInt(20), sub(p, 20), ref.FInv(ref.D), sub(pow2(252), 3))
	for _, k := range []uint{102, 153, 204} {
		v = append(v, pow2(k), sub(pow2(k), 1))
	}
	v = append(v, sub(pow2(254), 1))
	for i := 3; i < 8; i++ {
		v = append(v, ref.FRed(hashInt("F", i)))
	}
	for _, np := range Points(false) {
		v = append(v, np.P.X, np.P.Y)
	}
	return dedupInts(v)
}

// ---------- scalars ----------

func ScalarFromInt(v *big.Int) *edwards25519.Scalar {
	b := ref.LE32(ref.SRed(v))
	s, err := new(edwards25519.Scalar).SetCanonicalBytes(b[:])
	if err != nil {
		panic("ScalarFromInt: SetCanonicalBytes rejected a reduced value: " + err.Error())
	}
	return s
}

func ScalarValue(s *edwards25519.Scalar) *big.Int { return ref.FromLE(s.Bytes()) }

var montRInv = new(big.Int).ModInverse(pow2(256), ref.L)

// Scalars is alphabet S.
func Scalars(quick bool) []*big.Int {
	l := ref.L
	var v []*big.Int
	add := func(x *big.Int) {
		if x.Sign() >= 0 && x.Cmp(l) < 0 {
			v = append(v, x)
		}
	}
	for i := int64(0); i <= 16; i++ {
		add(big.NewInt(i))
		add(new(big.Int).Sub(l, big.NewInt(i+1)))
	}
	// the same boundaries in the Montgomery domain: the scalar whose internal
	// form is m is m*R^-1. The gap [2^252, l) between the top power of two and
	// the modulus is where "is it reduced" is decided limb-wise.
	mont := func(m *big.Int) {
		if m.Sign() >= 0 && m.Cmp(l) < 0 {
			add(ref.SMul(m, montRInv))
		}
	}
	for i := int64(0); i <= 4; i++ {
		mont(big.NewInt(i))
		mont(new(big.Int).Sub(l, big.NewInt(i+1)))
		mont(new(big.Int).Add(pow2(252), big.NewInt(i)))
		mont(new(big.Int).Sub(pow2(252), big.NewInt(i+1)))
	}
	for k := uint(8); k < 125; k += 29 {
		mont(new(big.Int).Add(pow2(252), pow2(k)))
		mont(new(big.Int).Sub(l, pow2(k)))
	}
	half := new(big.Int).Rsh(new(big.Int).Sub(l, big.NewInt(1)), 1)
	add(half)
	add(new(big.Int).Add(half, big.NewInt(1)))
	add(ref.SRed(hashInt("S", 0)))
	add(ref.SRed(hashInt("S", 1)))
	add(pow2(252))
	step := uint(1)
	if quick {
		step = 8
	}
	for k := uint(0); k <= 252; k += step {
		add(pow2(k))
		add(new(big.Int).Sub(pow2(k), big.NewInt(1)))
	}
	for k := uint(0); k < 125; k += step {
		add(new(big.Int).Sub(l, pow2(k)))
	}
	// 64-bit limb lattice, as integer and as Montgomery form
	corners := []uint64{0, 1, 1 << 63, ^uint64(0)}
	if quick {
		corners = []uint64{0, ^uint64(0)}
	}
	for _, a := range corners {
		for _, b := range corners {
			for _, c := range corners {
				for _, d := range corners {
					m := new(big.Int).SetUint64(d)
					for _, w := range []uint64{c, b, a} {
						m.Lsh(m, 64)
						m.Add(m, new(big.Int).SetUint64(w))
					}
					if m.Cmp(l) < 0 {
						add(m)
						add(ref.SMul(m, montRInv))
					}
				}
			}
		}
	}
	// single radix-16 digits at every position, nibble-uniform scalars
	dstep := int64(1)
	if quick {
		dstep = 7
	}
	for d := int64(1); d <= 15; d += dstep {
		for i := uint(0); i <= 62; i += step {
			add(new(big.Int).Lsh(big.NewInt(d), 4*i))
		}
		u := new(big.Int).Sub(pow2(252), big.NewInt(1))
		u.Div(u, big.NewInt(15))
		add(u.Mul(u, big.NewInt(d)))
	}
	// nibble 8 patterns: 0x88..8, 0x77..7 + carries
	for _, nib := range []int64{7, 8, 9} {
		x := new(big.Int)
		for i := 0; i < 62; i++ {
			x.Lsh(x, 4)
			x.Add(x, big.NewInt(nib))
		}
		add(x)
	}
	if !quick {
		for i := 2; i < 12; i++ {
			add(ref.SRed(hashInt("S", i)))
		}
	}
	return dedupInts(v)
}

// ---------- points ----------

type NamedPt struct {
	Name string
	P    ref.Pt
}

var GenericScalar = ref.SRed(hashInt("g", 0))

var pointsCache [2][]NamedPt

// Points is alphabet P: E[8], multiples of B, torsion+multiples.
func Points(quick bool) []NamedPt {
	qi := 0
	if quick {
		qi = 1
	}
	if pointsCache[qi] != nil {
		return pointsCache[qi]
	}
	B := ref.Base()
	tors := ref.Torsion()
	var out []NamedPt
	seen := map[string]bool{}
	add := func(name string, p ref.Pt) {
		e := ref.Encode(p)
		if !seen[string(e[:])] {
			seen[string(e[:])] = true
			out = append(out, NamedPt{name, p})
		}
	}
	for i, t := range tors {
		add(fmt.Sprintf("T%d", i), t)
	}
	lm1 := new(big.Int).Sub(ref.L, big.NewInt(1))
	hl := new(big.Int).Rsh(new(big.Int).Add(ref.L, big.NewInt(1)), 1)
	type js struct {
		n string
		k *big.Int
	}
	mult := []js{{"B", big.NewInt(1)}, {"(l-1)B", lm1}, {"gB", GenericScalar}, {"2B", big.NewInt(2)}}
	if !quick {
		mult = append(mult, js{"3B", big.NewInt(3)}, js{"8B", big.NewInt(8)}, js{"((l+1)/2)B", hl})
	}
	for _, m := range mult {
		add(m.n, ref.Mul(m.k, B))
	}
	tsel := []int{1, 4, 7}
	if !quick {
		tsel = []int{1, 2, 3, 4, 5, 6, 7}
	}
	for _, ti := range tsel {
		for _, m := range mult[:3] {
			add(fmt.Sprintf("T%d+%s", ti, m.n), ref.Add(tors[ti], ref.Mul(m.k, B)))
		}
	}
	// points with a small x (and the matching p-x) and with a small y: their
	// coordinates sit at the reduction boundary, where sign/parity handling
	// of unreduced representations goes wrong first
	nsmall := 3
	if quick {
		nsmall = 2
	}
	found := 0
	for xv := int64(19); xv < 400 && found < nsmall; xv++ {
		x := big.NewInt(xv)
		x2 := ref.FSq(x)
		// y^2 = (1 + x^2) / (1 - d x^2)
		w := ref.FDiv(ref.FAdd(ref.One, x2), ref.FSub(ref.One, ref.FMul(ref.D, x2)))
		if !ref.FIsSquare(w) {
			continue
		}
		y := ref.FSqrtEven(w)
		pt := ref.Pt{X: x, Y: y}
		if !ref.OnCurve(pt) {
			panic("small-x point not on curve")
		}
		add(fmt.Sprintf("x=%d", xv), pt)
		add(fmt.Sprintf("x=p-%d", xv), ref.Neg(pt))
		found++
	}
	found = 0
	for yv := int64(2); yv < 400 && found < nsmall; yv++ {
		e := ref.LE32(big.NewInt(yv))
		if pt, ok := ref.Decode(e[:]); ok {
			add(fmt.Sprintf("y=%d", yv), pt)
			found++
		}
	}
	pointsCache[qi] = out
	return out
}

// Lambdas is the projective scaling alphabet.
func Lambdas() []*big.Int {
	return []*big.Int{big.NewInt(1), big.NewInt(2), new(big.Int).Sub(ref.P, big.NewInt(1)), ref.SqrtM1, ref.FRed(hashInt("lambda", 0))}
}

// PointCoords returns model extended coordinates (lambda x, lambda y, lambda, lambda x y).
func PointCoords(p ref.Pt, lambda *big.Int) [4]*big.Int {
	return [4]*big.Int{ref.FMul(lambda, p.X), ref.FMul(lambda, p.Y), ref.FRed(lambda), ref.FMul(lambda, ref.FMul(p.X, p.Y))}
}

// MakePointFromElems stores the four coordinates. Uses raw injection when the
// layout guard holds (so that checks of other operations do not depend on
// SetExtendedCoordinates); otherwise SetExtendedCoordinates.
func MakePointFromElems(X, Y, Z, T *field.Element) *edwards25519.Point {
	if PointLayoutOK && !PointExtraFields {
		var r [20]uint64
		for i, e := range []*field.Element{X, Y, Z, T} {
			l := LimbsOf(e)
			copy(r[5*i:], l[:])
		}
		return PointFromLimbs(r)
	}
	x, y, z, t := *X, *Y, *Z, *T
	p, err := new(edwards25519.Point).SetExtendedCoordinates(&x, &y, &z, &t)
	if err != nil {
		panic("MakePoint: SetExtendedCoordinates rejected valid coordinates")
	}
	if PointLayoutOK {
		// the library's constructor has set whatever else the struct holds;
		// make sure the coordinates have exactly the requested limbs
		for k, e := range []*field.Element{X, Y, Z, T} {
			*(*field.Element)(unsafe.Add(unsafe.Pointer(p), pointOff[k])) = *e
		}
	}
	return p
}

// NumPointForms is the number of representations MakePoint can build.
const NumPointForms = 8

// MakePoint builds model point p in representation `form`:
// 0: Z=1 canonical limbs; 1..4: lambda = Lambdas()[form], canonical limbs;
// 5: lambda=2 with every coordinate passed through Subtract(v,0);
// 6: lambda=generic, coordinates as Mult32 chains; 7: lambda=p-1, mixed.
func MakePoint(p ref.Pt, form int) *edwards25519.Point {
	ls := Lambdas()
	var lam *big.Int
	recipe := [4]int{0, 0, 0, 0}
	switch {
	case form <= 4:
		lam = ls[form]
	case form == 5:
		lam = ls[1]
		recipe = [4]int{1, 1, 1, 1}
	case form == 6:
		lam = ls[4]
		recipe = [4]int{5, 5, 5, 5}
	default:
		lam = ls[2]
		recipe = [4]int{1, 6, 2, 5}
	}
	c := PointCoords(p, lam)
	var e [4]field.Element
	for i := range e {
		e[i] = ElemRecipes(c[i])[recipe[i]]
	}
	return MakePointFromElems(&e[0], &e[1], &e[2], &e[3])
}

// PointModel reads a Point back into the model through ExtendedCoordinates;
// ok=false if Z = 0.
func PointModel(p *edwards25519.Point) (pt ref.Pt, X, Y, Z, T *big.Int, ok bool) {
	ex, ey, ez, et := p.ExtendedCoordinates()
	X, Y, Z, T = ref.FromLE(ex.Bytes()), ref.FromLE(ey.Bytes()), ref.FromLE(ez.Bytes()), ref.FromLE(et.Bytes())
	if Z.Sign() == 0 {
		return ref.Pt{}, X, Y, Z, T, false
	}
	return ref.Affine(X, Y, Z), X, Y, Z, T, true
}

func SortedKeys[M ~map[string]V, V any](m M) []string {
	var ks []string
	for k := range m {
		ks = append(ks, k)
	}
	sort.Strings(ks)
	return ks
}

// ---------- targeted representations ----------

// SparseZ returns Z values whose limbs are sparse: every non-zero pattern of
// limbs in {0,1} and in {0,2^51-1}. A shortcut that recognises "Z is one" (or
// any other special Z) by looking at some limbs only is confused by exactly
// these.
func SparseZ() []Limbs {
	var out []Limbs
	for _, hi := range []uint64{1, 1<<51 - 1} {
		for m := 1; m < 32; m++ {
			var l Limbs
			for i := 0; i < 5; i++ {
				if m>>uint(i)&1 == 1 {
					l[i] = hi
				}
			}
			if new(big.Int).Mod(LimbValue(l), ref.P).Sign() != 0 {
				out = append(out, l)
			}
		}
	}
	return out
}

// MakePointZ builds model point p with Z stored as exactly the limbs z (the
// other coordinates in canonical limbs).
func MakePointZ(p ref.Pt, z Limbs) *edwards25519.Point {
	c := PointCoords(p, new(big.Int).Mod(LimbValue(z), ref.P))
	X, Y, T := ElemCanon(c[0]), ElemCanon(c[1]), ElemCanon(c[3])
	Z := ElemFromLimbs(z)
	return MakePointFromElems(&X, &Y, &Z, &T)
}

// ConfusableRep builds model point q in the representation whose stored
// coordinate i (0 X, 1 Y, 2 Z, 3 T) has exactly the canonical limbs of c. It
// returns nil when q's affine coordinate i is zero (no such representation) or
// c is zero.
func ConfusableRep(q ref.Pt, i int, c *big.Int) *edwards25519.Point {
	aff := PointCoords(q, big.NewInt(1))
	if aff[i].Sign() == 0 || new(big.Int).Mod(c, ref.P).Sign() == 0 {
		return nil
	}
	lam := ref.FMul(c, ref.FInv(aff[i]))
	return MakePoint2(q, lam)
}

// MakePoint2 builds q with scaling lambda, canonical limbs.
func MakePoint2(q ref.Pt, lam *big.Int) *edwards25519.Point {
	c := PointCoords(q, lam)
	var e [4]field.Element
	for i := range e {
		e[i] = ElemCanon(c[i])
	}
	return MakePointFromElems(&e[0], &e[1], &e[2], &e[3])
}

// Related lists representations of points OTHER than p that share stored
// coordinates with the representation (X:Y:Z:T) of p given by lam: for each
// coordinate and each point of `others` the representation that shares exactly
// that coordinate, and the three sign-pattern partners that share two
// coordinates ((-X:Y:Z:-T) = -p, (X:-Y:Z:-T), (-X:-Y:Z:T)). Anything a tree
// memoises under an incomplete key (one or two stored coordinates) is confused
// by one of them.
type RelatedRep struct {
	Name string
	Pt   ref.Pt
	P    *edwards25519.Point
}

func Related(p ref.Pt, lam *big.Int, others []ref.Pt) []RelatedRep {
	co := PointCoords(p, lam)
	var out []RelatedRep
	names := []string{"X", "Y", "Z", "T"}
	for qi, q := range others {
		if q.Equal(p) {
			continue
		}
		for i := 0; i < 4; i++ {
			if r := ConfusableRep(q, i, co[i]); r != nil {
				out = append(out, RelatedRep{fmt.Sprintf("other%d sharing stored %s", qi, names[i]), q, r})
			}
		}
	}
	signs := [][4]int{{-1, 1, 1, -1}, {1, -1, 1, -1}, {-1, -1, 1, 1}}
	for _, sg := range signs {
		var e [4]field.Element
		var v [4]*big.Int
		for i := range e {
			v[i] = co[i]
			if sg[i] < 0 {
				v[i] = ref.FNeg(co[i])
			}
			e[i] = ElemCanon(v[i])
		}
		out = append(out, RelatedRep{fmt.Sprintf("sign partner %v", sg), ref.Affine(v[0], v[1], v[2]), MakePointFromElems(&e[0], &e[1], &e[2], &e[3])})
	}
	return out
}
