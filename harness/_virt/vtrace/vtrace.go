// Package vtrace is the leakage-trace runtime (injected with -overlay next to
// instrumented copies of the library; not part of the repository). The
// instrumented code reports every branch outcome, index / slice bound, shift
// count, division operand and variable-time library call operand; the harness
// compares the traces of executions that differ only in secrets.
package vtrace

import (
	"fmt"
	"hash/fnv"
)

type Event struct {
	Site uint32
	Val  uint64
}

var (
	On      bool
	H       uint64
	N       int
	Logging bool
	Log     []Event
	Reached [1 << 14]bool
)

func Reset(logging bool) {
	H, N = 1469598103934665603, 0
	Logging = logging
	Log = Log[:0]
	On = true
}

func Stop() (uint64, int) {
	On = false
	return H, N
}

func rec(site uint32, v uint64) {
	if !On {
		return
	}
	if int(site) < len(Reached) {
		Reached[site] = true
	}
	H = (H ^ (uint64(site)<<40 ^ v)) * 1099511628211
	N++
	if Logging && len(Log) < 1<<22 {
		Log = append(Log, Event{site, v})
	}
}

// B records a branch / comparison outcome.
func B(site uint32, c bool) bool {
	if c {
		rec(site, 1)
	} else {
		rec(site, 0)
	}
	return c
}

type integer interface {
	~int | ~int8 | ~int16 | ~int32 | ~int64 | ~uint | ~uint8 | ~uint16 | ~uint32 | ~uint64 | ~uintptr
}

// I records an index, slice bound, shift count or div/mod operand.
func I[T integer](site uint32, v T) T {
	rec(site, uint64(v))
	return v
}

// A records the content of an operand handed to a variable-time library call.
func A[T any](site uint32, v T) T {
	if On {
		h := fnv.New64a()
		fmt.Fprintf(h, "%v", v)
		rec(site, h.Sum64())
	}
	return v
}

// Mark records that a function declared variable-time was entered.
func Mark(site uint32) { rec(site, 0xffff) }
