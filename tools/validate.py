#!/usr/bin/env python3
# Validate MANIFEST.json and evidence files against the schemas in /root/.vp.
import json,sys,glob,jsonschema
ok=True
m=json.load(open('/verif/MANIFEST.json'))
jsonschema.validate(m,json.load(open('/root/.vp/MANIFEST.schema.json')))
es=json.load(open('/root/.vp/EVIDENCE.schema.json'))
for c in m['checks']:
    try:
        e=json.load(open('/verif/'+c['evidence_file']))
        jsonschema.validate(e,es)
        assert e['level']==c['level_claimed']['category'],(e['level'],c['level_claimed']['category'])
        print(c['property_id'],'ok',e['tier'],e['coverage'].get('evaluations'),e['coverage'].get('distinct_nontrivial'))
    except Exception as ex:
        ok=False;print(c['property_id'],'INVALID',str(ex)[:300])
ids=[json.loads(l)['id'] for l in open('/verif/properties.jsonl')]
cl=set(c['property_id'] for c in m['checks'])|set(n['property_id'] for n in m.get('not_applicable',[]))
print('unlisted:',[i for i in ids if i not in cl])
sys.exit(0 if ok else 1)
