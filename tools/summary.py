#!/usr/bin/env python3
"""Print a markdown table of what the evidence files report (quick tier from
/verif/evidence, thorough tier from the directory given as argv[1] if any)."""
import json,sys,os,glob
def row(d):
    c=d['coverage']
    return (d['level'], c.get('evaluations',0), c.get('states',''), c.get('transitions',''), c.get('distinct_nontrivial',''), c.get('exhaustive'), round(d['wall_s'],1))
tdir=sys.argv[1] if len(sys.argv)>1 else None
print("| id | level | quick: evaluations | states | transitions | distinct | exhaustive | wall s | thorough: evaluations | states | transitions | exhaustive | wall s |")
print("|---|---|---|---|---|---|---|---|---|---|---|---|---|")
for f in sorted(glob.glob('/verif/evidence/C*.json')):
    d=json.load(open(f)); q=row(d)
    t=('','','','','','','')
    if tdir and os.path.exists(os.path.join(tdir,os.path.basename(f))):
        t=row(json.load(open(os.path.join(tdir,os.path.basename(f)))))
    print("| %s | %s | %s | %s | %s | %s | %s | %s | %s | %s | %s | %s | %s |"%(d['property_id'],q[0],q[1],q[2],q[3],q[4],q[5],q[6],t[1],t[2],t[3],t[5],t[6]))
