package checks

// C19, longer histories: (1) one input buffer reused for a sequence of different values by every
// byte-input setter - a tree that remembers an input by reference (a decode cache keyed on the caller's
// slice) answers with an earlier value; (2) many distinct points pushed through each operation, each
// earlier point asked again after every new one - a cache with several entries and an eviction rule only
// goes wrong once it is full. Every answer is compared with the model, so a correct cache of any size
// and policy stays silent.

import (
	"bytes"
	"math/big"

	"filippo.io/edwards25519"
	"filippo.io/edwards25519/field"

	"verif/harness/alpha"
	"verif/harness/core"
	"verif/harness/ref"
)

type bufCase struct {
	Setter string `json:"setter"`
	Start  int    `json:"start"`
	Cap    int    `json:"extra_cap"`
}

var bufSetters = []string{"Point.SetBytes", "Scalar.SetCanonicalBytes", "Scalar.SetUniformBytes", "Scalar.SetBytesWithClamping", "Element.SetBytes", "Element.SetWideBytes"}

const bufValues = 20 // more than any plausible small cache

// bufValue: the i-th input of a setter and the bytes its result must encode to.
func bufValue(setter string, i int) (in []byte, want []byte) {
	gen := func(n int, salt byte) []byte {
		b := make([]byte, n)
		for j := range b {
			b[j] = byte(i*37+j*11+1) ^ salt ^ byte((i+3)*(j+5)>>2)
		}
		return b
	}
	switch setter {
	case "Point.SetBytes":
		ps := pointIns(true, []int{0})
		p := ps[(i*5+1)%len(ps)]
		return append([]byte{}, p.Enc...), append([]byte{}, p.Enc...)
	case "Scalar.SetCanonicalBytes":
		S := alpha.Scalars(true)
		e := ref.LE32(ref.SRed(S[(i*7+2)%len(S)]))
		return e[:], append([]byte{}, e[:]...)
	case "Scalar.SetUniformBytes":
		b := gen(64, 0x5a)
		if i%4 == 3 { // high half zero: the shape SetBytesWithClamping produces
			for j := 32; j < 64; j++ {
				b[j] = 0
			}
		}
		e := ref.LE32(ref.SRed(ref.FromLE(b)))
		return b, e[:]
	case "Scalar.SetBytesWithClamping":
		b := gen(32, 0xc3)
		e := ref.LE32(ref.SRed(ref.Clamp(b)))
		return b, e[:]
	case "Element.SetBytes":
		b := gen(32, 0x17)
		if i%5 == 4 {
			for j := range b {
				b[j] = 0xff
			}
			b[0] = byte(0xed + i%19)
		}
		e := ref.LE32(ref.FDecode(b))
		return b, e[:]
	case "Element.SetWideBytes":
		b := gen(64, 0x99)
		e := ref.LE32(ref.FRed(ref.FromLE(b)))
		return b, e[:]
	}
	panic("bad setter")
}

// bufDecode runs the setter on in (the caller's slice, passed as it is) and returns the encoding of
// the result. recv: reused receivers per setter (nil -> fresh).
type bufRecv struct {
	p edwards25519.Point
	s edwards25519.Scalar
	e field.Element
}

func bufDecode(setter string, in []byte, r *bufRecv) ([]byte, error) {
	if r == nil {
		r = new(bufRecv)
	}
	switch setter {
	case "Point.SetBytes":
		p, err := r.p.SetBytes(in)
		if err != nil {
			return nil, err
		}
		return p.Bytes(), nil
	case "Scalar.SetCanonicalBytes":
		s, err := r.s.SetCanonicalBytes(in)
		if err != nil {
			return nil, err
		}
		return s.Bytes(), nil
	case "Scalar.SetUniformBytes":
		s, err := r.s.SetUniformBytes(in)
		if err != nil {
			return nil, err
		}
		return s.Bytes(), nil
	case "Scalar.SetBytesWithClamping":
		s, err := r.s.SetBytesWithClamping(in)
		if err != nil {
			return nil, err
		}
		return s.Bytes(), nil
	case "Element.SetBytes":
		e, err := r.e.SetBytes(in)
		if err != nil {
			return nil, err
		}
		return e.Bytes(), nil
	case "Element.SetWideBytes":
		e, err := r.e.SetWideBytes(in)
		if err != nil {
			return nil, err
		}
		return e.Bytes(), nil
	}
	panic("bad setter")
}

func bufWrongLengths(in []byte) [][]byte {
	n := len(in)
	out := [][]byte{
		append(append([]byte{}, in...), 0),
		append(append([]byte{}, in...), 0xff),
		append(append([]byte{}, in...), in...),
		append([]byte{}, in[:n-1]...),
		append([]byte{}, in[:n/2]...),
	}
	t := n
	for t > 0 && in[t-1] == 0 {
		t--
	}
	if t < n {
		out = append(out, append([]byte{}, in[:t]...))
	}
	if n == 64 {
		out = append(out, append([]byte{}, in[:32]...))
	} else {
		out = append(out, append(append([]byte{}, in...), make([]byte, 32)...))
	}
	return out
}

var subC19Buf = core.NewSub("C19/buffer-reuse", func(w *core.Worker, c bufCase) *core.Fail {
	in0, _ := bufValue(c.Setter, 0)
	buf := make([]byte, len(in0), len(in0)+c.Cap)
	used := new(bufRecv)
	for pass := 0; pass < 2; pass++ {
		for n := 0; n < bufValues; n++ {
			i := (c.Start + n) % bufValues
			in, want := bufValue(c.Setter, i)
			copy(buf, in) // the same caller-owned buffer now holds value i
			var r *bufRecv
			if n%2 == 1 {
				r = used
			}
			got, err := bufDecode(c.Setter, buf, r)
			if err != nil {
				return core.Failf("%s rejected valid input %x (value %d written into a reused buffer)", c.Setter, in, i)
			}
			if !bytes.Equal(got, want) {
				return core.Failf("%s on a buffer that was reused: it now holds %x (value %d, pass %d) but the result encodes %x, want %x - the result depends on what the buffer held during an earlier call", c.Setter, in, i, pass, got, want)
			}
			if !bytes.Equal(buf, in) {
				return core.Failf("%s modified its input buffer", c.Setter)
			}
			// wrong-length relatives of the value just decoded (longer, zero-padded, truncated - also by
			// exactly its trailing zero bytes) must still be rejected: a tree that remembers decoded
			// inputs must not recognise them by a prefix
			for vi, bad := range bufWrongLengths(in) {
				if g, err := bufDecode(c.Setter, bad, nil); err == nil {
					return core.Failf("%s accepted a %d-byte input (variant %d of the %d-byte value %x decoded just before) and produced %x", c.Setter, len(bad), vi, len(in), in, g)
				}
			}
			// the previous value, from a fresh slice, after the shared buffer moved on
			if n > 0 {
				pi := (c.Start + n - 1) % bufValues
				pin, pwant := bufValue(c.Setter, pi)
				got, err := bufDecode(c.Setter, pin, nil)
				if err != nil || !bytes.Equal(got, pwant) {
					return core.Failf("%s(%x) from a fresh slice, after a buffer that held the same bytes during an earlier call was overwritten with %x: result %x, want %x", c.Setter, pin, in, got, pwant)
				}
			}
			w.Distinct("nontrivial:results", got)
		}
	}
	return nil
})

// ---- many distinct points through one operation ----

type thrashCase struct {
	Routine string `json:"routine"`
	N       int    `json:"points"`
	Offset  int    `json:"offset"`
}

// confImpl: the implementation half of confCall (one call, no model arithmetic).
func confImpl(routine string, k *edwards25519.Scalar, a *edwards25519.Point) []byte {
	eight := mkScalar(big.NewInt(8))
	switch routine {
	case "ScalarMult":
		return new(edwards25519.Point).ScalarMult(k, a).Bytes()
	case "VarTimeDoubleScalarBaseMult":
		return new(edwards25519.Point).VarTimeDoubleScalarBaseMult(k, a, eight).Bytes()
	case "MultiScalarMult":
		return new(edwards25519.Point).MultiScalarMult([]*edwards25519.Scalar{k, eight}, []*edwards25519.Point{a, a}).Bytes()
	case "VarTimeMultiScalarMult":
		return new(edwards25519.Point).VarTimeMultiScalarMult([]*edwards25519.Scalar{edwards25519.NewScalar(), k, eight}, []*edwards25519.Point{edwards25519.NewGeneratorPoint(), a, a}).Bytes()
	case "Add":
		return new(edwards25519.Point).Add(a, a).Bytes()
	case "AddB":
		return new(edwards25519.Point).Add(a, edwards25519.NewGeneratorPoint()).Bytes()
	case "Subtract":
		return new(edwards25519.Point).Subtract(edwards25519.NewGeneratorPoint(), a).Bytes()
	case "Negate":
		return new(edwards25519.Point).Negate(a).Bytes()
	case "MultByCofactor":
		return new(edwards25519.Point).MultByCofactor(a).Bytes()
	case "Bytes":
		return a.Bytes()
	case "BytesMontgomery":
		return a.BytesMontgomery()
	case "EqualB":
		return []byte{byte(a.Equal(edwards25519.NewGeneratorPoint()))}
	case "SetBytes": // decode the point's own encoding again
		p, err := new(edwards25519.Point).SetBytes(a.Bytes())
		if err != nil {
			return []byte("rejected")
		}
		return p.Bytes()
	}
	panic("bad routine")
}

var thrashRoutines = []string{"ScalarMult", "VarTimeDoubleScalarBaseMult", "MultiScalarMult", "VarTimeMultiScalarMult", "Add", "AddB", "Subtract", "Negate", "MultByCofactor", "Bytes", "BytesMontgomery", "EqualB", "SetBytes", "multi:VarTimeMultiScalarMult", "multi:MultiScalarMult"}

// thrashPoints: N point objects with pairwise different values and computed (Z != 1) or scaled
// representations, and their models.
func thrashPoints(n, offset int) ([]*edwards25519.Point, []ref.Pt) {
	ins := pointIns(true, []int{6, 5, 3})
	var ps []*edwards25519.Point
	var ms []ref.Pt
	seen := map[string]bool{}
	for i := 0; len(ps) < n && i < 4*len(ins); i++ {
		in := ins[(offset+i*7)%len(ins)]
		// alphabet point + (i+2)B: distinct values also when the alphabet repeats
		m := ref.Add(in.model(), ref.Mul(big.NewInt(int64(i/len(ins)*64+i%61+2)), ref.Base()))
		key := fmtPt(m)
		if seen[key] {
			continue
		}
		seen[key] = true
		ps = append(ps, alpha.MakePoint(m, in.Form))
		ms = append(ms, m)
	}
	return ps, ms
}

// thrashInvalidEncoding: the i-th 32-byte string y (small, then spread) that is not the y of a curve point.
func thrashInvalidEncoding(i int) []byte {
	found := -1
	for y := int64(2); ; y++ {
		b := ref.LE32(new(big.Int).Add(big.NewInt(y), new(big.Int).Lsh(big.NewInt(int64(i%7)), uint(8*(i%29)))))
		if _, ok := ref.Decode(b[:]); !ok {
			found++
			if found == i {
				return b[:]
			}
		}
	}
}

var subC19Thrash = core.NewSub("C19/many-distinct-points", func(w *core.Worker, c thrashCase) *core.Fail {
	ps, ms := thrashPoints(c.N, c.Offset)
	kv := big.NewInt(9)
	if c.Offset%2 == 1 {
		kv = new(big.Int).Set(alpha.GenericScalar)
	}
	k := mkScalar(kv)
	enc := func(p ref.Pt) []byte { e := ref.Encode(p); return e[:] }
	if len(c.Routine) > 6 && c.Routine[:6] == "multi:" {
		// one call over all earlier points followed by one new point: whatever the tree remembers about
		// the earlier ones must survive the arrival of the new one inside the same call
		k2v := big.NewInt(3)
		k2 := mkScalar(k2v)
		sum := ref.Identity()
		var sc []*edwards25519.Scalar
		for i := range ps {
			if i%2 == 0 {
				sum = ref.Add(sum, ref.Mul(kv, ms[i]))
				sc = append(sc, k)
			} else {
				sum = ref.Add(sum, ref.Mul(k2v, ms[i]))
				sc = append(sc, k2)
			}
			var got []byte
			if c.Routine == "multi:MultiScalarMult" {
				got = new(edwards25519.Point).MultiScalarMult(sc, ps[:i+1]).Bytes()
			} else {
				got = new(edwards25519.Point).VarTimeMultiScalarMult(sc, ps[:i+1]).Bytes()
			}
			if want := enc(sum); !bytes.Equal(got, want) {
				return core.Failf("%s over %d points used in earlier calls plus one new point: %x want %x", c.Routine[6:], i, got, want)
			}
			// and the two-term call: an early point with the newest one
			for _, j := range []int{0, i / 2} {
				if j == i {
					continue
				}
				want := enc(ref.Add(ref.Mul(kv, ms[j]), ref.Mul(k2v, ms[i])))
				pair := []*edwards25519.Point{ps[j], ps[i]}
				ks := []*edwards25519.Scalar{k, k2}
				if c.Routine == "multi:MultiScalarMult" {
					got = new(edwards25519.Point).MultiScalarMult(ks, pair).Bytes()
				} else {
					got = new(edwards25519.Point).VarTimeMultiScalarMult(ks, pair).Bytes()
				}
				if !bytes.Equal(got, want) {
					return core.Failf("%s on points %d and %d of a history of %d distinct points: %x want %x", c.Routine[6:], j, i, i+1, got, want)
				}
			}
			w.Distinct("nontrivial:results", got)
		}
		return nil
	}
	wants := make([][]byte, len(ps))
	for i := range ps {
		if c.Routine == "SetBytes" {
			// a rejected decode before every new point: what a tree remembers about rejected
			// inputs must not leak into later valid ones
			bad := thrashInvalidEncoding(i)
			if _, err := new(edwards25519.Point).SetBytes(bad); err == nil {
				return core.Failf("SetBytes accepted the off-curve encoding %x (step %d of a history of decodes)", bad, i)
			}
			wants[i] = enc(ms[i])
			if got := confImpl(c.Routine, k, ps[i]); !bytes.Equal(got, wants[i]) {
				return core.Failf("SetBytes(Bytes()) of point %d of a history of distinct points: %x want %x", i, got, wants[i])
			}
		} else {
			got, want := confCall(c.Routine, k, ps[i], ms[i], kv)
			if !bytes.Equal(got, want) {
				return core.Failf("%s on point %d (%s) of a history of distinct points: %x want %x", c.Routine, i, fmtPt(ms[i]), got, want)
			}
			wants[i] = want
		}
		// every earlier point again, oldest first and newest first alternately
		for n := 0; n < i; n++ {
			j := n
			if i%2 == 1 {
				j = i - 1 - n
			}
			if got := confImpl(c.Routine, k, ps[j]); !bytes.Equal(got, wants[j]) {
				return core.Failf("%s on point %d (%s) asked again after %d distinct points went through the same operation: %x want %x - the result depends on the history", c.Routine, j, fmtPt(ms[j]), i+1, got, wants[j])
			}
		}
		w.Distinct("nontrivial:results", wants[i])
	}
	return nil
})

func runC19Long(ctx *core.Ctx) {
	var bc []bufCase
	for _, s := range bufSetters {
		for _, start := range []int{0, 7} {
			for _, cp := range []int{0, 96} {
				bc = append(bc, bufCase{s, start, cp})
			}
		}
	}
	subC19Buf.RunList(ctx, bc)
	var tc []thrashCase
	n := sz(ctx, 40, 40, 72)
	for ri, r := range thrashRoutines {
		tc = append(tc, thrashCase{r, n, ri})
		if !ctx.Quick() {
			tc = append(tc, thrashCase{r, n, ri + 17})
		}
	}
	subC19Thrash.RunList(ctx, tc)
}
