//go:build verif

// In-package verification shim (injected with -overlay, not part of the
// repository): exposes the portable multiply/square next to the dispatched one.
package field

func VerifFeMulGeneric(v, a, b *Element) { feMulGeneric(v, a, b) }

func VerifFeSquareGeneric(v, a *Element) { feSquareGeneric(v, a) }

func VerifFeMul(v, a, b *Element) { feMul(v, a, b) }

func VerifFeSquare(v, a *Element) { feSquare(v, a) }
