//go:build !noshim

package checks

import (
	"filippo.io/edwards25519"
	"filippo.io/edwards25519/field"
)

// The in-package shim (harness/shims, injected with -overlay) is available.
const shimAvailable = true

func shimRadix16(s *edwards25519.Scalar) [64]int8 { return edwards25519.VerifSignedRadix16(s) }
func shimNAF(s *edwards25519.Scalar, w uint) [256]int8 {
	return edwards25519.VerifNonAdjacentForm(s, w)
}
func shimProjTable(q *edwards25519.Point) [8][4]field.Element { return edwards25519.VerifProjTable(q) }
func shimNafTable5(q *edwards25519.Point) [8][4]field.Element { return edwards25519.VerifNafTable5(q) }
func shimProjSelect(q *edwards25519.Point, x int8) [4]field.Element {
	return edwards25519.VerifProjSelect(q, x)
}
func shimBaseEntry(i, j int) [3]field.Element       { return edwards25519.VerifBasepointTableEntry(i, j) }
func shimBaseSelect(i int, x int8) [3]field.Element { return edwards25519.VerifBasepointSelect(i, x) }
func shimBaseNafEntry(j int) [3]field.Element       { return edwards25519.VerifBasepointNafEntry(j) }
func shimFeMulGeneric(v, a, b *field.Element)       { field.VerifFeMulGeneric(v, a, b) }
func shimFeSquareGeneric(v, a *field.Element)       { field.VerifFeSquareGeneric(v, a) }
func shimFeMul(v, a, b *field.Element)              { field.VerifFeMul(v, a, b) }
func shimFeSquare(v, a *field.Element)              { field.VerifFeSquare(v, a) }
