#!/bin/bash
# tools/seedcheck.sh <Cnn> <i> [checks]: confirm a sub-agent's seeded change myself in its scratch
# worktree (/tmp/seed/<Cnn>), run my checks against it, store it under /verif/seeded/<Cnn>-<i>/.
set -u
id="$1"; i="$2"; checks="${3:-$id}"; odir="${4:-_out}"; off="${5:-0}"
W=/tmp/seed/$id; O=$W/$odir
n=$((i+off))
export GOFLAGS=-mod=mod GOPROXY=off GOSUMDB=off GOTOOLCHAIN=local
[ -f $O/patch$i.diff ] || { echo "no patch$i"; exit 2; }
git -C $W checkout -q -- . ; git -C $W clean -qfd -e "_out*"
pkgline=$(grep -m1 '^package ' $O/demo${i}_test.go)
case "$pkgline" in *field*) sub=field;; *) sub=.;; esac
run_demo() { cp $O/demo${i}_test.go $W/$sub/zz_demo${i}_test.go; ( cd $W/$sub && timeout 900 go test -vet=off -count=1 -run "^TestDemo$i\$" . >/tmp/seed/demo.log 2>&1 ); rc=$?; rm -f $W/$sub/zz_demo${i}_test.go; return $rc; }
run_demo; clean_demo=$?
git -C $W apply $O/patch$i.diff || { echo "patch does not apply"; exit 2; }
( cd $W && go build ./... && go test -vet=off -count=1 ./... >/tmp/seed/suite.log 2>&1 ); suite=$?
run_demo; patched_demo=$?
echo "$id-$n: demo on clean tree rc=$clean_demo (want 0); suite with patch rc=$suite (want 0); demo with patch rc=$patched_demo (want !=0)"
verdicts=""
for c in ${checks//,/ }; do
  out="$(VERIF_REPO=$W VERIF_OUT=/tmp/seed/out_$id /verif/check $c quick 2>&1)"; rc=$?
  line="$(echo "$out" | grep -m1 -E '^  sub=' | cut -c1-260)"
  echo "   check $c rc=$rc $line"
  verdicts="$verdicts $c:rc=$rc"
done
mkdir -p /verif/seeded/$id-$n
cp $O/patch$i.diff /verif/seeded/$id-$n/patch.diff; cp $O/demo${i}_test.go /verif/seeded/$id-$n/demo_test.go; cp $O/note$i.txt /verif/seeded/$id-$n/note.txt 2>/dev/null
python3 - "$id" "$n" "$clean_demo" "$suite" "$patched_demo" "$verdicts" "$sub" <<'PY'
import json,sys,os
id,i,cd,su,pd,ver,sub=sys.argv[1:8]
note=open('/verif/seeded/%s-%s/note.txt'%(id,i)).read() if True else ''
ann=json.load(open('/verif/seeded/ANNOTATIONS.json')).get('%s-%s'%(id,i),{}) if os.path.exists('/verif/seeded/ANNOTATIONS.json') else {}
meta={"property":id,"seed":int(i),"origin":"independent sub-agent given only the property text and a scratch worktree",
 "needs_to_manifest":note.strip(),
 "confirmed_by_me":{"demo_passes_on_unmodified_tree":cd=="0","existing_suite_passes_with_patch":su=="0","demo_fails_with_patch":pd!="0",
   "commands":["git apply patch.diff","go test -vet=off -count=1 ./...","go test -vet=off -count=1 -run '^TestDemo<k>$' . (demo copied into %s)"%(sub)]},
 "my_checks_quick":ver.strip()}
meta.update(ann)
json.dump(meta,open('/verif/seeded/%s-%s/meta.json'%(id,i),'w'),indent=1)
PY
git -C $W checkout -q -- . ; git -C $W clean -qfd -e "_out*"; rm -rf /tmp/seed/out_$id
