// Package vsched is the controlled scheduler runtime. It is NOT part of the
// repository: /verif/check injects it as a virtual package with
// `go build -overlay` next to instrumented copies of the library sources.
//
// One thread runs at a time. Every visible operation (synchronisation
// operations of the vsync shim, accesses to mutable package-level variables)
// first calls Point, where the explorer decides which thread continues.
// Happens-before is tracked with vector clocks for a race check on every
// explored schedule.
package vsched

import (
	"fmt"
	"sort"
)

const MaxThreads = 12

type VC [MaxThreads]int

func (a *VC) join(b *VC) {
	for i := range a {
		if b[i] > a[i] {
			a[i] = b[i]
		}
	}
}

type thread struct {
	id       int
	wake     chan struct{}
	done     bool
	started  bool
	blocked  func() bool // non-nil: not enabled while it returns true
	vc       VC
	body     func()
	steps    int
	lastRead string // variable of the immediately preceding visible op if it was a read
	frames   []frame
}

// frame: one active invocation of an instrumented function. work is set when
// the invocation (or something it called) entered a function outside
// InitOnly or wrote a package-level variable.
type frame struct {
	id   int
	work bool
}

// PointInfo is what the explorer sees at a scheduling point.
type PointInfo struct {
	Running        int   // thread that reached the point (-1 at start)
	RunningEnabled bool  // it could continue
	Enabled        []int // canonical order: running first if enabled, then ascending ids
	Kind, Obj      string
}

type access struct {
	thread int
	clock  int
	site   string
}

type varState struct {
	lastWrite *access
	reads     map[int]*access
}

// Exec is one controlled execution.
type Exec struct {
	threads []*thread
	cur     *thread
	Choose  func(p PointInfo) int // index into p.Enabled
	mainCh  chan struct{}

	Points    []PointInfo
	Choices   []int
	Races     []string
	Faults    []string // misuse detected by the sync shim (e.g. a pooled object shared by two threads)
	Calls     []int    // per function id: number of executions (all threads)
	Effective []int    // per function id: executions that did some work (see Enter)
	Deadlock  bool
	vars      map[string]*varState
	Counts    map[string][2]int // per variable: reads, writes
	SyncOps   int
	Spawned   int // goroutines started by the library itself
	panicked  any
	Trace     []string // optional event log
	LogEvents bool
	// KeyFn, if set, is evaluated at every scheduling point with a choice;
	// Keys[i] identifies the complete state at Points[i] (for state pruning).
	KeyFn func(e *Exec) [16]byte
	Keys  [][16]byte
	// OnResume, if set, is called whenever a thread is about to run its next
	// atomic stretch (after every scheduling point, with or without a choice).
	OnResume func(e *Exec, id int)
	// OnObserve, if set, is told what a thread is about to observe: the name
	// of the package-level variable it accesses next (kind "var") or the
	// value a synchronisation operation returned (kind "sync").
	OnObserve func(e *Exec, id int, kind string, name string, val uint64)
	// Version counts operations that may have changed shared memory or the
	// state of a synchronisation object (for caching state hashes).
	Version int
	ptrIDs  map[uintptr]uint64
}

var active *Exec

// Active reports whether a controlled execution is in progress (the
// instrumented library runs its package initialisers before any exists).
func Active() bool { return active != nil && active.cur != nil }

// Run executes the bodies as threads under the given chooser and returns
// when all have finished (or a deadlock was detected).
func Run(bodies []func(), choose func(p PointInfo) int, logEvents bool) *Exec {
	return RunKeyed(bodies, choose, logEvents, nil, nil)
}

// RunKeyed is Run with a state-key function (see Exec.KeyFn).
func RunKeyed(bodies []func(), choose func(p PointInfo) int, logEvents bool, keyFn func(e *Exec) [16]byte, onObserve func(e *Exec, id int, kind, name string, val uint64)) *Exec {
	e := &Exec{KeyFn: keyFn, OnObserve: onObserve, Choose: choose, mainCh: make(chan struct{}), vars: map[string]*varState{}, Counts: map[string][2]int{}, LogEvents: logEvents}
	if len(bodies) > MaxThreads-1 {
		panic("vsched: too many threads")
	}
	for i, b := range bodies {
		t := &thread{id: i + 1, wake: make(chan struct{}), body: b}
		t.vc[t.id] = 1 // spawn: every thread starts after the (idle) main thread
		e.threads = append(e.threads, t)
	}
	active = e
	for _, t := range e.threads {
		go e.runThread(t)
	}
	e.cur = nil
	e.dispatch(PointInfo{Running: -1, Kind: "start"})
	<-e.mainCh
	active = nil
	return e
}

func (e *Exec) runThread(t *thread) {
	<-t.wake
	defer func() {
		if r := recover(); r != nil {
			e.panicked = fmt.Sprintf("thread %d panicked: %v", t.id, r)
		}
		t.done = true
		e.schedule("exit", "")
	}()
	t.body()
}

// Go starts fn as a new controlled thread: the instrumenter rewrites the go
// statements of the library to calls of Go. The child starts after everything
// the parent did so far (spawn edge); which of the two continues is a
// scheduling decision. Outside a controlled execution it is a go statement.
func Go(fn func()) {
	e := active
	if e == nil || e.cur == nil {
		go fn()
		return
	}
	if len(e.threads)+1 >= MaxThreads {
		panic(fmt.Sprintf("vsched: more than %d threads (goroutines started by the library count)", MaxThreads-1))
	}
	parent := e.cur
	t := &thread{id: len(e.threads) + 1, wake: make(chan struct{}), body: fn}
	t.vc = parent.vc
	t.vc[t.id] = 1
	parent.vc[parent.id]++
	e.threads = append(e.threads, t)
	e.Version++
	e.Spawned++
	go e.runThread(t)
	e.schedule("go", "")
}

func (e *Exec) Panicked() any { return e.panicked }

func (e *Exec) enabled() []int {
	var out []int
	for _, t := range e.threads {
		if !t.done && (t.blocked == nil || !t.blocked()) {
			out = append(out, t.id)
		}
	}
	sort.Ints(out)
	return out
}

// dispatch picks the next thread and transfers control. Called by the
// thread that is yielding (or by Run at the start).
func (e *Exec) dispatch(p PointInfo) {
	en := e.enabled()
	running := -1
	if e.cur != nil {
		running = e.cur.id
	}
	// canonical order
	var order []int
	runEnabled := false
	for _, id := range en {
		if id == running {
			runEnabled = true
		}
	}
	if runEnabled {
		order = append(order, running)
	}
	for _, id := range en {
		if id != running {
			order = append(order, id)
		}
	}
	p.Running, p.RunningEnabled, p.Enabled = running, runEnabled, order
	if len(order) == 0 {
		alldone := true
		for _, t := range e.threads {
			if !t.done {
				alldone = false
			}
		}
		if !alldone {
			e.Deadlock = true
		}
		e.cur = nil
		e.mainCh <- struct{}{}
		return
	}
	choice := 0
	if len(order) > 1 {
		// the state key must describe the state BEFORE the choice is taken
		var key [16]byte
		if e.KeyFn != nil {
			key = e.KeyFn(e)
		}
		choice = e.Choose(p)
		if choice < 0 || choice >= len(order) {
			panic(fmt.Sprintf("vsched: choice %d out of range (%d enabled) at point %d", choice, len(order), len(e.Points)))
		}
		e.Points = append(e.Points, p)
		e.Choices = append(e.Choices, choice)
		if e.KeyFn != nil {
			e.Keys = append(e.Keys, key)
		}
	}
	next := e.threads[order[choice]-1]
	prev := e.cur
	e.cur = next
	if e.OnResume != nil {
		e.OnResume(e, next.id)
	}
	if prev == next {
		return
	}
	next.wake <- struct{}{}
	if prev != nil && !prev.done {
		<-prev.wake
	}
}

func (e *Exec) schedule(kind, obj string) {
	if e.cur != nil {
		e.cur.steps++
		e.cur.lastRead = ""
	}
	if e.LogEvents && e.cur != nil {
		e.Trace = append(e.Trace, fmt.Sprintf("T%d %s %s", e.cur.id, kind, obj))
	}
	e.dispatch(PointInfo{Kind: kind, Obj: obj})
}

// Point is a scheduling point before a visible operation of the running thread.
func Point(kind, obj string) {
	e := active
	if e == nil || e.cur == nil {
		return
	}
	e.schedule(kind, obj)
}

// Block makes the running thread wait until cond() is false.
func Block(kind, obj string, cond func() bool) {
	e := active
	if e == nil || e.cur == nil {
		if cond() {
			panic("vsched: would block outside a controlled execution")
		}
		return
	}
	t := e.cur
	for cond() {
		t.blocked = cond
		e.schedule(kind+"-wait", obj)
		t.blocked = nil
	}
}

// CurVC returns the running thread's vector clock (nil outside an execution).
func CurVC() *VC {
	e := active
	if e == nil || e.cur == nil {
		return nil
	}
	return &e.cur.vc
}

// Release / Acquire implement the happens-before edges of a sync object.
func Release(obj *VC) {
	e := active
	if e == nil || e.cur == nil {
		return
	}
	e.SyncOps++
	e.Version++
	obj.join(&e.cur.vc)
	e.cur.vc[e.cur.id]++
}

func Acquire(obj *VC) {
	e := active
	if e == nil || e.cur == nil {
		return
	}
	e.SyncOps++
	e.Version++
	e.cur.vc.join(obj)
}

// Access is inserted by the instrumenter before every statement that mentions
// a mutable package-level variable. It is a scheduling point and a
// happens-before race check.
func Access(name string, write bool, site string) {
	e := active
	if e == nil || e.cur == nil {
		return
	}
	kind := "read"
	if write {
		kind = "write"
	}
	// Consecutive reads of one variable by one thread with no other visible
	// operation in between are one scheduling point (the first): reads
	// commute with everything but writes, and a writer interleaved with the
	// block is still interleaved with its first read.
	if write || e.cur.lastRead != name {
		e.schedule(kind, name)
	}
	t := e.cur
	if write {
		if n := len(t.frames); n > 0 {
			t.frames[n-1].work = true
		}
		t.lastRead = ""
		e.Version++
	} else {
		t.lastRead = name
	}
	if e.OnObserve != nil {
		e.OnObserve(e, t.id, "var", name, 0)
	}
	vs := e.vars[name]
	if vs == nil {
		vs = &varState{reads: map[int]*access{}}
		e.vars[name] = vs
	}
	c := e.Counts[name]
	if write {
		c[1]++
	} else {
		c[0]++
	}
	e.Counts[name] = c
	hb := func(a *access) bool { return a.thread == t.id || a.clock <= t.vc[a.thread] }
	if w := vs.lastWrite; w != nil && !hb(w) {
		e.Races = append(e.Races, fmt.Sprintf("%s of %s by T%d at %s races with write by T%d at %s", kind, name, t.id, site, w.thread, w.site))
	}
	if write {
		for _, r := range vs.reads {
			if !hb(r) {
				e.Races = append(e.Races, fmt.Sprintf("write of %s by T%d at %s races with read by T%d at %s", name, t.id, site, r.thread, r.site))
			}
		}
		vs.lastWrite = &access{t.id, t.vc[t.id], site}
		vs.reads = map[int]*access{}
	} else {
		vs.reads[t.id] = &access{t.id, t.vc[t.id], site}
	}
}

// Observe reports the value a synchronisation operation returned to the
// running thread (what it learns from shared state).
func Observe(val uint64) {
	if e := active; e != nil && e.cur != nil && e.OnObserve != nil {
		e.OnObserve(e, e.cur.id, "sync", "", val)
	}
}

// ObservePtr is Observe for pointers: nil is 0, other pointers get small
// numbers in order of first appearance within the execution.
func ObservePtr(p uintptr) {
	e := active
	if e == nil || e.cur == nil || e.OnObserve == nil {
		return
	}
	if p == 0 {
		e.OnObserve(e, e.cur.id, "sync", "", 0)
		return
	}
	if e.ptrIDs == nil {
		e.ptrIDs = map[uintptr]uint64{}
	}
	id, ok := e.ptrIDs[p]
	if !ok {
		id = uint64(len(e.ptrIDs) + 1)
		e.ptrIDs[p] = id
	}
	e.OnObserve(e, e.cur.id, "sync", "", id)
}

// Fault records a synchronisation fault detected by the shim.
func Fault(msg string) {
	if e := active; e != nil && e.cur != nil {
		e.Faults = append(e.Faults, msg)
	}
}

// CurID is the running thread's id (0 outside a controlled execution).
func CurID() int {
	if e := active; e != nil && e.cur != nil {
		return e.cur.id
	}
	return 0
}

// Enter counts one execution of an instrumented function. It is not a
// scheduling point. Together with Leave it also keeps, per thread, the stack
// of active invocations, so that Effective[id] counts the invocations of
// function id that did some work: entered a function outside InitOnly
// or wrote a package-level variable, directly or through a callee. An
// invocation that only took a lock, looked and left (the losing side of a
// double-checked initialisation) is not effective.
func Enter(id int) {
	e := active
	if e == nil || e.cur == nil {
		return
	}
	for id >= len(e.Calls) {
		e.Calls = append(e.Calls, make([]int, id+64-len(e.Calls))...)
	}
	e.Calls[id]++
	t := e.cur
	if n := len(t.frames); n > 0 && !(id < len(InitOnly) && InitOnly[id]) {
		t.frames[n-1].work = true
	}
	t.frames = append(t.frames, frame{id: id})
}

// InitOnly is set by the harness: InitOnly[id] means function id only runs in
// a cold process (one-time initialisation code).
var InitOnly []bool

// Leave ends the invocation opened by the matching Enter (deferred).
func Leave(id int) {
	e := active
	if e == nil || e.cur == nil {
		return
	}
	t := e.cur
	n := len(t.frames)
	for n > 0 && t.frames[n-1].id != id {
		n--
	}
	if n == 0 {
		return // no matching Enter in this execution
	}
	f := t.frames[n-1]
	t.frames = t.frames[:n-1]
	if f.work {
		for id >= len(e.Effective) {
			e.Effective = append(e.Effective, make([]int, id+64-len(e.Effective))...)
		}
		e.Effective[id]++
		if n-1 > 0 {
			t.frames[n-2].work = true
		}
	}
}

// CoreState serialises the scheduler-visible state: per thread the number of
// visible steps, done/blocked flags and vector clock; per variable the
// access records that decide future race reports.
func (e *Exec) CoreState() []byte {
	var b []byte
	put := func(x int) { b = append(b, byte(x), byte(x>>8), byte(x>>16), byte(x>>24)) }
	running := 0
	if e.cur != nil {
		running = e.cur.id
	}
	put(running)
	for _, t := range e.threads {
		put(t.steps)
		if t.done {
			put(1)
		} else {
			put(0)
		}
		for _, c := range t.vc {
			put(c)
		}
		b = append(b, []byte(t.lastRead)...)
		b = append(b, 0)
	}
	names := make([]string, 0, len(e.vars))
	for n := range e.vars {
		names = append(names, n)
	}
	sort.Strings(names)
	for _, n := range names {
		vs := e.vars[n]
		b = append(b, []byte(n)...)
		if vs.lastWrite != nil {
			put(vs.lastWrite.thread)
			put(vs.lastWrite.clock)
		} else {
			put(-1)
		}
		ids := make([]int, 0, len(vs.reads))
		for id := range vs.reads {
			ids = append(ids, id)
		}
		sort.Ints(ids)
		for _, id := range ids {
			put(id)
			put(vs.reads[id].clock)
		}
		put(-2)
	}
	put(len(e.Races))
	put(len(e.Faults))
	return b
}

// Steps returns the number of visible operations each thread executed.
func (e *Exec) Steps() []int {
	var o []int
	for _, t := range e.threads {
		o = append(o, t.steps)
	}
	return o
}
