package checks

import (
	"bytes"
	"fmt"
	"math/big"
	"strconv"
	"strings"

	"filippo.io/edwards25519"
	"verif/harness/alpha"
	"verif/harness/core"
	"verif/harness/ref"
)

// Two-step sequences over RELATED representations, shared by C04, C05 and C17.
//
// A point is stored as four field elements, and anything a tree remembers
// about "the last point seen" or "what the receiver already holds" under an
// incomplete key (one stored coordinate, or two) is confused by a second,
// different point whose representation shares exactly those stored
// coordinates. alpha.Related builds them: for each stored coordinate of P and
// each point Q of a small alphabet, the representation of Q that shares that
// coordinate, plus the three sign partners that share two. The oracle is the
// value-level statement of the property being checked (the encoding / u /
// decoded point of the second step equals the model's), nothing else.

type relCase struct {
	P   ptIn   `json:"p"` // first point; canonical-limb forms only (0..4)
	K   int    `json:"k"` // index into relatedFor(P)
	Obs string `json:"obs"`
	Rev bool   `json:"rev,omitempty"` // the related representation goes first
}

func relatedOthers() []ref.Pt {
	B := ref.Base()
	T := ref.Torsion()
	return []ref.Pt{B, ref.Mul(big.NewInt(2), B), ref.Add(T[1], ref.Mul(alpha.GenericScalar, B)), T[3], ref.Mul(big.NewInt(5), B)}
}

func relatedFor(p ptIn) []alpha.RelatedRep {
	return alpha.Related(p.base(), alpha.Lambdas()[p.Form], relatedOthers())
}

func relatedCases(quick bool, obs string, rev bool) []relCase {
	var out []relCase
	for _, p := range pointIns(quick, []int{0, 4}) {
		n := len(relatedFor(p))
		for k := 0; k < n; k++ {
			out = append(out, relCase{P: p, K: k, Obs: obs})
			if rev {
				out = append(out, relCase{P: p, K: k, Obs: obs, Rev: true})
			}
		}
	}
	return out
}

func runRelated(w *core.Worker, c relCase) *core.Fail {
	rel := relatedFor(c.P)
	if c.K >= len(rel) {
		return nil
	}
	r := rel[c.K]
	first, fm := c.P.point(), c.P.model()
	second, sm := r.P, r.Pt
	desc := fmt.Sprintf("%s (form %d) then %s", c.P.Enc, c.P.Form, r.Name)
	if c.Rev {
		first, fm, second, sm = second, sm, first, fm
		desc = fmt.Sprintf("%s then %s (form %d)", r.Name, c.P.Enc, c.P.Form)
	}
	w.Distinct("nontrivial:related", []byte(fmt.Sprint(c.Obs, c.K, c.Rev)))
	switch c.Obs {
	case "Bytes":
		first.Bytes()
		want := ref.Encode(sm)
		if got := second.Bytes(); !bytes.Equal(got, want[:]) {
			return core.Failf("Bytes() of the second point of [%s] = %x, model %x (the two representations share stored coordinates)", desc, got, want[:])
		}
		wf := ref.Encode(fm)
		if got := first.Bytes(); !bytes.Equal(got, wf[:]) {
			return core.Failf("Bytes() of the first point of [%s], asked again = %x, model %x", desc, got, wf[:])
		}
	case "BytesMontgomery":
		first.BytesMontgomery()
		want := ref.Montgomery(sm)
		if got := second.BytesMontgomery(); !bytes.Equal(got, want[:]) {
			return core.Failf("BytesMontgomery() of the second point of [%s] = %x, model %x (the two representations share stored coordinates)", desc, got, want[:])
		}
		wf := ref.Montgomery(fm)
		if got := first.BytesMontgomery(); !bytes.Equal(got, wf[:]) {
			return core.Failf("BytesMontgomery() of the first point of [%s], asked again = %x, model %x", desc, got, wf[:])
		}
	case "Decode":
		// the second representation is the RECEIVER of a decode of the first
		// point's encoding
		enc := ref.Encode(fm)
		in, _ := withSlack(enc[:])
		ret, err := second.SetBytes(in)
		if err != nil || ret != second {
			return core.Failf("SetBytes(%x) into a receiver holding [%s] failed: %v", enc[:], desc, err)
		}
		if f := pointMatches(second, fm); f != nil {
			return core.Failf("SetBytes(%x) into a receiver holding [%s]: %s", enc[:], desc, f.Msg)
		}
	default:
		panic("bad obs")
	}
	return nil
}

var (
	subC05Related = core.NewSub("C05/after-related", runRelated)
	subC17Related = core.NewSub("C17/after-related", runRelated)
	subC04Related = core.NewSub("C04/related-receiver", runRelated)
)

// zsparse: every alphabet point with Z stored as each sparse limb pattern.
func zsparseCases(quick bool) []ptEncCase {
	var out []ptEncCase
	n := len(alpha.SparseZ())
	for _, p := range pointIns(quick, []int{0}) {
		for k := 0; k < n; k++ {
			out = append(out, ptEncCase{p, "zsparse:" + strconv.Itoa(k)})
		}
	}
	return out
}

func zsparsePoint(c ptEncCase) *edwards25519.Point {
	k, err := strconv.Atoi(strings.TrimPrefix(c.Via, "zsparse:"))
	if err != nil {
		panic("bad zsparse via")
	}
	return alpha.MakePointZ(c.P.model(), alpha.SparseZ()[k])
}
