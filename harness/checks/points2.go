package checks

import (
	"bytes"
	"crypto/ecdh"
	"math/big"

	"filippo.io/edwards25519"
	"filippo.io/edwards25519/field"
	"verif/harness/alpha"
	"verif/harness/core"
	"verif/harness/ref"
)

// ---------------- C04 ----------------

type decodeCase struct {
	In Hex `json:"in"`
}

var subC04 = core.NewSub("C04/decode", func(w *core.Worker, c decodeCase) *core.Fail {
	in, full := withSlack(c.In)
	prior := observe(alpha.MakePoint(ref.Mul(big.NewInt(5), ref.Base()), 6))
	priorRaw := alpha.PointRaw(prior)
	v := observe(new(edwards25519.Point).Set(prior))
	ret, err := v.SetBytes(in)
	_ = full // input and receiver atomicity are C14's business
	want, ok := ref.Decode(c.In)
	if !ok {
		w.Distinct("accept", []byte{0})
		if err == nil || ret != nil {
			return core.Failf("SetBytes accepted %x (len %d) which the model rejects", []byte(c.In), len(c.In))
		}
		_ = priorRaw
		return nil
	}
	w.Distinct("accept", []byte{1})
	if err != nil || ret != v {
		return core.Failf("SetBytes rejected %x which encodes %s (err=%v)", []byte(c.In), want, err)
	}
	e := ref.Encode(want)
	w.Distinct("nontrivial:points", e[:])
	if !bytes.Equal(e[:], c.In) {
		w.Distinct("noncanonical-accepted", c.In)
	}
	if f := pointMatches(v, want); f != nil {
		return core.Failf("SetBytes(%x): %s", []byte(c.In), f.Msg)
	}
	return nil
})

func init() { register("C04", "exploration", runC04) }

func decodeAlphabet(ctx *core.Ctx) []decodeCase {
	var cases []decodeCase
	add := func(b []byte) { cases = append(cases, decodeCase{Hex(append([]byte{}, b...))}) }
	// (a) all small y x sign
	ny := sz(ctx, 1<<14, 1<<16, 1<<18)
	for y := 0; y < ny; y++ {
		for s := 0; s < 2; s++ {
			var b [32]byte
			b[0], b[1] = byte(y), byte(y>>8)
			b[31] = byte(s) << 7
			add(b[:])
		}
	}
	// (b) top of the range: y in [2^255-2^12, 2^255) x sign
	top := new(big.Int).Lsh(big.NewInt(1), 255)
	for d := int64(1); d <= 1<<12; d++ {
		for s := 0; s < 2; s++ {
			b := ref.LE32(new(big.Int).Sub(top, big.NewInt(d)))
			b[31] |= byte(s) << 7
			add(b[:])
		}
	}
	// (c) one-byte deviation balls
	var bases [][]byte
	pts := alpha.Points(smoke(ctx))
	for i, np := range pts {
		if smoke(ctx) && i%3 != 0 {
			continue
		}
		e := ref.Encode(np.P)
		bases = append(bases, e[:])
	}
	pm1 := ref.LE32(new(big.Int).Sub(ref.P, big.NewInt(1)))
	pp := ref.LE32(ref.P)
	bases = append(bases, make([]byte, 32), bytes.Repeat([]byte{0xff}, 32), pm1[:], pp[:])
	for _, b := range bases {
		for _, x := range oneByteBall(b) {
			add(x)
		}
	}
	// (e) targeted encodings: inside decoding, SQRT_RATIO_M1 compares v*r^2
	// (which is s*u for a unit s in {1,-1,i,-i}, u = y^2-1) with t*u for other
	// units t; y is chosen so that (s-t)*u is exactly a single bit or a
	// limb-corner pattern: u = delta/(s-t), y^2 = u+1
	for _, u := range sqrtRatioTargets() {
		y2 := ref.FAdd(u, ref.One)
		if !ref.FIsSquare(y2) {
			continue
		}
		y := ref.FSqrtEven(y2)
		for _, yy := range []*big.Int{y, ref.FNeg(y)} {
			for sgn := 0; sgn < 2; sgn++ {
				b := ref.LE32(yy)
				b[31] |= byte(sgn) << 7
				add(b[:])
			}
		}
	}
	// (d) lengths
	e := ref.Encode(ref.Base())
	for n := 0; n <= 130; n++ {
		add(make([]byte, n))
		add(bytes.Repeat([]byte{0xff}, n))
		v := make([]byte, n)
		copy(v, e[:])
		add(v)
		if n > 32 { // valid point followed by garbage / preceded by garbage
			v2 := make([]byte, n)
			copy(v2[n-32:], e[:])
			add(v2)
		}
	}
	return cases
}

func runC04(ctx *core.Ctx) {
	ctx.Rule("all y in [0,2^14|2^16) x sign bit; all y in [2^255-2^12,2^255) x sign bit (contains every non-canonical residue); complete one-byte deviation balls (32x256) around the encodings of alphabet P, all-00, all-ff, p-1, p; all lengths 0..130 with four fillings; every alphabet encoding decoded into receivers holding a different point whose representation shares a stored coordinate (or two) with the decoded point. Oracle: Euler criterion + ModSqrt in math/big. distinct_nontrivial = distinct decoded points")
	ctx.Assume("math/big is correct", "strings outside the enumerated sets are not decided")
	cases := decodeAlphabet(ctx)
	subC04.RunList(ctx, cases)
	// decode every alphabet encoding into receivers that hold a DIFFERENT point
	// whose representation shares stored coordinates with the decoded one
	subC04Related.RunList(ctx, relatedCases(smoke(ctx), "Decode", false))
	ctx.Extra("noncanonical_inputs_accepted", ctx.DistinctCount("noncanonical-accepted"))
	if ctx.DistinctCount("accept") != 2 || ctx.DistinctCount("noncanonical-accepted") < 20 {
		ctx.Vacuous("C04: vacuous coverage")
	}
}

// ---------------- C13 ----------------

type quadCase struct {
	C      [4]elemIn `json:"coords"`
	Origin string    `json:"origin,omitempty"`
}

var subC13 = core.NewSub("C13/import", func(w *core.Worker, c quadCase) *core.Fail {
	var e [4]field.Element
	var v [4]*big.Int
	for i := range e {
		e[i] = c.C[i].elem()
		v[i] = c.C[i].value()
	}
	e0 := e
	valid := ref.ExtendedValid(v[0], v[1], v[2], v[3])
	prior := observe(alpha.MakePoint(ref.Mul(big.NewInt(5), ref.Base()), 6))
	priorRaw := alpha.PointRaw(prior)
	p := observe(new(edwards25519.Point).Set(prior))
	ret, err := p.SetExtendedCoordinates(&e[0], &e[1], &e[2], &e[3])
	_ = e0 // arguments and receiver atomicity are C14's business
	if v[2].Sign() == 0 {
		w.Distinct("z-zero", []byte{1})
	}
	if !valid {
		w.Distinct("accept", []byte{0})
		if err == nil || ret != nil {
			return core.Failf("SetExtendedCoordinates accepted invalid (X=%x Y=%x Z=%x T=%x)", v[0], v[1], v[2], v[3])
		}
		_ = priorRaw
		return nil
	}
	w.Distinct("accept", []byte{1})
	if err != nil || ret != p {
		return core.Failf("SetExtendedCoordinates rejected valid (X=%x Y=%x Z=%x T=%x): %v", v[0], v[1], v[2], v[3], err)
	}
	want := ref.Affine(v[0], v[1], v[2])
	enc := ref.Encode(want)
	w.Distinct("nontrivial:points", enc[:])
	if f := pointMatches(p, want); f != nil {
		return f
	}
	// export and re-import
	X, Y, Z, T := p.ExtendedCoordinates()
	q, err := new(edwards25519.Point).SetExtendedCoordinates(X, Y, Z, T)
	if err != nil {
		return core.Failf("re-import of ExtendedCoordinates() rejected")
	}
	if q.Equal(p) != 1 || !bytes.Equal(q.Bytes(), enc[:]) {
		return core.Failf("re-import of ExtendedCoordinates() gives a different point")
	}
	return nil
})

// export: ExtendedCoordinates of operation results satisfy the relations and re-import.
var subC13Export = core.NewSub("C13/export", func(w *core.Worker, c ptEncCase) *core.Fail {
	p := viaPoint(c)
	if p == nil {
		return core.Failf("decode failed")
	}
	if f := pointMatches(p, c.P.model()); f != nil {
		return f
	}
	X, Y, Z, T := p.ExtendedCoordinates()
	q, err := new(edwards25519.Point).SetExtendedCoordinates(X, Y, Z, T)
	if err != nil || q.Equal(p) != 1 || !bytes.Equal(q.Bytes(), c.P.Enc) {
		return core.Failf("re-import of exported coordinates failed for %s via %s", c.P.Enc, c.Via)
	}
	// ... also while a later export of ANOTHER point is alive
	other := alpha.MakePoint(ref.Mul(big.NewInt(9), ref.Base()), 3)
	oX, oY, oZ, oT := other.ExtendedCoordinates()
	q1, err := new(edwards25519.Point).SetExtendedCoordinates(X, Y, Z, T)
	if err != nil || !bytes.Equal(q1.Bytes(), c.P.Enc) {
		return core.Failf("coordinates exported from %s (via %s) no longer describe it after another point's coordinates were exported", c.P.Enc, c.Via)
	}
	if q3, err := new(edwards25519.Point).SetExtendedCoordinates(oX, oY, oZ, oT); err != nil || q3.Equal(other) != 1 {
		return core.Failf("the second of two exports alive at once does not re-import to its own point")
	}
	// the exported quadruple describes the point as it was when exported:
	// later use of the source as a receiver must not change it
	p.Add(p, edwards25519.NewGeneratorPoint())
	p.MultByCofactor(p)
	q2, err := new(edwards25519.Point).SetExtendedCoordinates(X, Y, Z, T)
	if err != nil || !bytes.Equal(q2.Bytes(), c.P.Enc) {
		return core.Failf("coordinates exported from %s (via %s) no longer describe it after the source point was reused as a receiver", c.P.Enc, c.Via)
	}
	// and writing to the exported elements must not change an imported point
	X.Add(X, X)
	Y.Zero()
	if !bytes.Equal(q2.Bytes(), c.P.Enc) {
		return core.Failf("a point imported from coordinates changes when those coordinates are written afterwards")
	}
	w.Distinct("nontrivial:points", c.P.Enc)
	return nil
})

func init() { register("C13", "exploration", runC13) }

func runC13(ctx *core.Ctx) {
	ctx.Rule("(a) all quadruples over a 9-value field alphabet {0,1,2,p-1,sqrt(-1),d,generic,Bx,By} (9^4), zeros and ones also in their non-canonical limb forms (limbs of p, p+1, 2p...); (b) for every point of P and every lambda the valid quadruple and all single-coordinate deviations (replace by each alphabet value, negate, zero, add one); (c) export/re-import of every operation-produced representation. Oracle: Z != 0 and both identities in math/big. distinct_nontrivial = distinct accepted points")
	ctx.Assume("math/big is correct")
	B := ref.Base()
	fv := []*big.Int{big.NewInt(0), big.NewInt(1), big.NewInt(2), new(big.Int).Sub(ref.P, big.NewInt(1)), ref.SqrtM1, ref.D, alpha.FieldValues(true)[13], B.X, B.Y}
	canon := make([]elemIn, len(fv))
	for i, v := range fv {
		canon[i] = elemIn{alpha.CanonLimbs(v)}
	}
	n := len(fv)
	subC13.Run(ctx, n*n*n*n, func(i int) quadCase {
		return quadCase{C: [4]elemIn{canon[i%n], canon[(i/n)%n], canon[(i/n/n)%n], canon[i/n/n/n]}}
	})
	// zero / one in all their limb forms
	var z01 []elemIn
	for _, v := range []*big.Int{big.NewInt(0), big.NewInt(1)} {
		for _, l := range alpha.BorrowForms(v, alpha.DefaultBox) {
			z01 = append(z01, elemIn{l})
		}
		for _, e := range alpha.ElemRecipes(v) {
			z01 = append(z01, inOf(&e))
		}
	}
	// include p+p style: limbs of 2p are outside the box (2^52-ish) and are not used
	m := len(z01)
	ctx.Extra("zero_one_forms", m)
	lim := m
	if lim > 14 {
		lim = 14
	}
	zz := z01
	if lim < m {
		// spread
		zz = nil
		for i := 0; i < lim; i++ {
			zz = append(zz, z01[i*m/lim])
		}
	}
	k := len(zz)
	subC13.Run(ctx, k*k*k*k, func(i int) quadCase {
		return quadCase{C: [4]elemIn{zz[i%k], zz[(i/k)%k], zz[(i/k/k)%k], zz[i/k/k/k]}, Origin: "zero/one forms"}
	})
	// (b) deviations
	var zeroForms []elemIn
	for _, l := range alpha.BorrowForms(big.NewInt(0), alpha.DefaultBox) {
		zeroForms = append(zeroForms, elemIn{l})
	}
	for _, e := range alpha.ElemRecipes(big.NewInt(0)) {
		zeroForms = append(zeroForms, inOf(&e))
	}
	ctx.Extra("zero_forms", len(zeroForms))
	var cases []quadCase
	devVals := alpha.FieldValues(true)
	for _, np := range alpha.Points(smoke(ctx)) {
		for li, lam := range alpha.Lambdas() {
			co := alpha.PointCoords(np.P, lam)
			var base [4]elemIn
			for i := range base {
				r := alpha.ElemRecipes(co[i])
				base[i] = inOf(&r[(li+i)%len(r)%7])
			}
			cases = append(cases, quadCase{C: base, Origin: np.Name})
			for pos := 0; pos < 4; pos++ {
				alts := []*big.Int{ref.FNeg(co[pos]), big.NewInt(0), ref.FAdd(co[pos], big.NewInt(1)), ref.FMul(co[pos], big.NewInt(2))}
				alts = append(alts, devVals...)
				for _, a := range alts {
					q := base
					q[pos] = elemIn{alpha.CanonLimbs(a)}
					cases = append(cases, quadCase{C: q, Origin: np.Name + " dev"})
				}
			}
			// scale all by 0 (Z=0 degenerate) and negate all (valid)
			var zq, nq [4]elemIn
			for i := range zq {
				zq[i] = elemIn{alpha.CanonLimbs(big.NewInt(0))}
				nq[i] = elemIn{alpha.CanonLimbs(ref.FNeg(co[i]))}
			}
			cases = append(cases, quadCase{C: zq, Origin: "all zero"}, quadCase{C: nq, Origin: "negated"})
			// Z = 0, in every limb form of zero, with the other coordinates kept
			// and with all coordinates zero (each in that form)
			for _, z := range zeroForms {
				q := base
				q[2] = z
				cases = append(cases, quadCase{C: q, Origin: "Z=0"})
				q[3] = z
				cases = append(cases, quadCase{C: q, Origin: "Z=0,T=0"})
				cases = append(cases, quadCase{C: [4]elemIn{z, z, z, z}, Origin: "all zero (one limb form)"})
			}
		}
	}
	subC13.RunList(ctx, cases)
	all := pointIns(smoke(ctx), []int{0, 1, 2, 3, 4, 5, 6, 7})
	nv := len(viaForms)
	subC13Export.Run(ctx, len(all)*nv, func(i int) ptEncCase { return ptEncCase{all[i/nv], viaForms[i%nv]} })
	subC13Export.RunList(ctx, zsparseCases(smoke(ctx)))
	ctx.Extra("z_zero_quadruples_seen", ctx.DistinctCount("z-zero") > 0)
	if ctx.DistinctCount("accept") != 2 || ctx.DistinctCount("z-zero") == 0 {
		ctx.Vacuous("C13: vacuous coverage")
	}
}

// ---------------- C17 ----------------

var subC17 = core.NewSub("C17/montgomery", func(w *core.Worker, c ptEncCase) *core.Fail {
	p := viaPoint(c)
	if p == nil {
		return core.Failf("decode failed")
	}
	raw := alpha.PointRaw(p)
	got := p.BytesMontgomery()
	if alpha.PointRaw(p) != raw {
		// a representation-only rewrite is C18's business; the value must be intact
		if f := pointMatches(p, c.P.model()); f != nil {
			return core.Failf("BytesMontgomery() changed the point: %s", f.Msg)
		}
	}
	want := ref.Montgomery(c.P.model())
	if !bytes.Equal(got, want[:]) {
		return core.Failf("BytesMontgomery(%s form %d via %s)=%x want %x", c.P.Enc, c.P.Form, c.Via, got, want[:])
	}
	neg := new(edwards25519.Point).Negate(p)
	if !bytes.Equal(neg.BytesMontgomery(), got) {
		return core.Failf("BytesMontgomery(P) != BytesMontgomery(-P)")
	}
	// a result already handed out must survive later calls on other points
	edwards25519.NewGeneratorPoint().BytesMontgomery()
	alpha.MakePoint(ref.Torsion()[1], 3).BytesMontgomery()
	if !bytes.Equal(got, want[:]) {
		return core.Failf("the slice returned by BytesMontgomery(%s) changed to %x after later BytesMontgomery calls", c.P.Enc, got)
	}
	w.Distinct("nontrivial:u", got)
	return nil
})

type x25519Case struct {
	K Hex `json:"k"`
}

var subC17X = core.NewSub("C17/x25519", func(w *core.Worker, c x25519Case) *core.Fail {
	s, err := new(edwards25519.Scalar).SetBytesWithClamping(c.K)
	if err != nil {
		return core.Failf("SetBytesWithClamping: %v", err)
	}
	got := new(edwards25519.Point).ScalarBaseMult(s).BytesMontgomery()
	priv, err := ecdh.X25519().NewPrivateKey(c.K)
	if err != nil {
		core.InternalError("crypto/ecdh rejected key: %v", err)
	}
	want := priv.PublicKey().Bytes()
	if !bytes.Equal(got, want) {
		return core.Failf("BytesMontgomery([clamp(k)]B)=%x, X25519 public key=%x (k=%s)", got, want, c.K)
	}
	// and against the model: u of [clamp(k) mod l]B
	m := ref.Montgomery(ref.Mul(ref.SRed(ref.Clamp(c.K)), ref.Base()))
	if !bytes.Equal(got, m[:]) {
		return core.Failf("BytesMontgomery([clamp(k)]B)=%x, model=%x", got, m[:])
	}
	w.Distinct("nontrivial:u", got)
	return nil
})

func init() { register("C17", "exploration", runC17) }

func runC17(ctx *core.Ctx) {
	ctx.Rule("every point of alphabet P (incl. identity, (0,-1) and all of E[8]) in 8 injected and 11 operation-produced representations -> u=(1+y)/(1-y) with 1/0=0, canonical LE, equal for P and -P; every point with Z stored as each of 62 sparse limb patterns; two-step sequences u(P);u(Q);u(P) over representations that share stored coordinates; X25519 cross-check against crypto/ecdh for a structured key alphabet (one-byte balls of bytes 0 and 31, scalar alphabet encodings). distinct_nontrivial = distinct u outputs")
	ctx.Assume("math/big is correct", "crypto/ecdh X25519 is an independent correct implementation")
	all := pointIns(smoke(ctx), []int{0, 1, 2, 3, 4, 5, 6, 7})
	nv := len(viaForms)
	subC17.Run(ctx, len(all)*nv, func(i int) ptEncCase { return ptEncCase{all[i/nv], viaForms[i%nv]} })
	subC17.RunList(ctx, zsparseCases(smoke(ctx)))
	subC17Related.RunList(ctx, relatedCases(smoke(ctx), "BytesMontgomery", true))
	var ks []x25519Case
	g := ref.LE32(alpha.GenericScalar)
	for _, base := range [][]byte{g[:], bytes.Repeat([]byte{0xff}, 32), make([]byte, 32)} {
		for _, pos := range []int{0, 31} {
			step := tierN(ctx, 5, 1)
			for v := 0; v < 256; v += step {
				b := append([]byte{}, base...)
				b[pos] = byte(v)
				ks = append(ks, x25519Case{Hex(b)})
			}
		}
	}
	for i, s := range alpha.Scalars(true) {
		if smoke(ctx) && i%4 != 0 {
			continue
		}
		ks = append(ks, x25519Case{le32(s)})
	}
	subC17X.RunList(ctx, ks)
	ctx.Extra("x25519_keys_compared", len(ks))
}
