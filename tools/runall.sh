#!/bin/bash
# tools/runall.sh [tier] [props...]: run checks back to back, print verdict + wall time
tier="${1:-quick}"; shift
props="${*:-C01 C02 C03 C04 C05 C06 C07 C08 C09 C10 C11 C12 C13 C14 C15 C16 C17 C18 C19 C20}"
for p in $props; do
  s=$(date +%s.%N)
  out="$("$(dirname "$0")/../check" $p $tier 2>&1)"; rc=$?
  e=$(date +%s.%N)
  printf "%s rc=%d %5.1fs %s\n" $p $rc $(echo "$e - $s" | bc) "$(echo "$out" | grep -E '^(PASS|FAIL|INTERNAL|VIOLATION)' | tail -1 | cut -c1-150)"
done
