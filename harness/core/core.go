// Package core is the runner shared by all checks: exhaustive parallel
// enumeration of a finite case space, violation collection with a
// reproducibility guard, replay files, known-findings handling and evidence.
package core

import (
	"crypto/sha256"
	"encoding/hex"
	"encoding/json"
	"fmt"
	"os"
	"os/exec"
	"path/filepath"
	"runtime"
	"sort"
	"strings"
	"sync"
	"sync/atomic"
	"time"
)

// OutDir is where evidence/ and replays/ are written (default: verif dir).
var OutDir string

func outDir(verifDir string) string {
	if OutDir != "" {
		return OutDir
	}
	return verifDir
}

// Fail describes one violated case.
type Fail struct {
	Msg string
}

func Failf(format string, a ...any) *Fail { return &Fail{Msg: fmt.Sprintf(format, a...)} }

// InternalError aborts with exit 2 (machinery error, never a VIOLATION).
func InternalError(format string, a ...any) {
	fmt.Fprintf(os.Stderr, "INTERNAL-ERROR: "+format+"\n", a...)
	os.Exit(2)
}

type violation struct {
	Sub   string          `json:"sub"`
	Index int             `json:"index"`
	Case  json.RawMessage `json:"case"`
	Msg   string          `json:"msg"`
}

// Ctx accumulates what one check run covered.
type Ctx struct {
	Prop     string
	Tier     string
	Seed     int64
	Level    string
	Start    time.Time
	Deadline time.Time // zero = none

	mu          sync.Mutex
	evals       int64
	subs        map[string]*SubStat
	subOrder    []string
	distinct    map[string]map[[8]byte]struct{}
	samples     []any
	viol        []violation
	assumptions []string
	extra       map[string]any
	states      int64
	transitions int64
	traces      int64
	exhaustive  bool
	totalViol   int64
	shard       *shardSpec
	shardCalls  map[string]int

	// ReportAs: print violations / write replays under this property id (a
	// check of one property re-running another property's enumeration in a
	// different build configuration). BuildTags is recorded in replay files.
	ReportAs   string
	BuildTags  string
	NoEvidence bool
	DigestFile string
	rule       []string
	notes      []string
}

type SubStat struct {
	Cases      int64 `json:"cases"`
	Violations int64 `json:"violations"`
	Completed  bool  `json:"completed"`
}

func NewCtx(prop, tier string, seed int64, level string) *Ctx {
	return &Ctx{Prop: prop, Tier: tier, Seed: seed, Level: level, Start: time.Now(),
		subs: map[string]*SubStat{}, distinct: map[string]map[[8]byte]struct{}{},
		extra: map[string]any{}, exhaustive: true}
}

func (c *Ctx) Quick() bool { return c.Tier != "thorough" }

func (c *Ctx) Assume(s ...string) { c.assumptions = append(c.assumptions, s...) }
func (c *Ctx) Rule(s string)      { c.rule = append(c.rule, s) }
func (c *Ctx) Note(s string)      { c.mu.Lock(); c.notes = append(c.notes, s); c.mu.Unlock() }
func (c *Ctx) Extra(k string, v any) {
	c.mu.Lock()
	c.extra[k] = v
	c.mu.Unlock()
}
func (c *Ctx) AddStates(n int64)      { atomic.AddInt64(&c.states, n) }
func (c *Ctx) AddTransitions(n int64) { atomic.AddInt64(&c.transitions, n) }
func (c *Ctx) AddTraces(n int64)      { atomic.AddInt64(&c.traces, n) }
func (c *Ctx) NotExhaustive(why string) {
	c.mu.Lock()
	c.exhaustive = false
	c.notes = append(c.notes, "not exhaustive: "+why)
	c.mu.Unlock()
}
func (c *Ctx) Expired() bool { return !c.Deadline.IsZero() && time.Now().After(c.Deadline) }

// Sample keeps up to 12 sample cases for the evidence file.
func (c *Ctx) Sample(v any) {
	c.mu.Lock()
	if len(c.samples) < 12 {
		c.samples = append(c.samples, v)
	}
	c.mu.Unlock()
}

// Distinct records an outcome key in a named class (for non-vacuity counts).
// Worker-local sets are preferable in hot loops; see DistinctSet.
func (c *Ctx) Distinct(class string, key []byte) {
	h := sha256.Sum256(key)
	var k [8]byte
	copy(k[:], h[:8])
	c.mu.Lock()
	m := c.distinct[class]
	if m == nil {
		m = map[[8]byte]struct{}{}
		c.distinct[class] = m
	}
	m[k] = struct{}{}
	c.mu.Unlock()
}

func (c *Ctx) DistinctCount(class string) int {
	c.mu.Lock()
	defer c.mu.Unlock()
	return len(c.distinct[class])
}

// Worker is the per-goroutine handle passed to eval functions.
type Worker struct {
	c     *Ctx
	local map[string]map[[8]byte]struct{}
}

func (w *Worker) Distinct(class string, key []byte) {
	h := sha256.Sum256(key)
	var k [8]byte
	copy(k[:], h[:8])
	m := w.local[class]
	if m == nil {
		m = map[[8]byte]struct{}{}
		w.local[class] = m
	}
	m[k] = struct{}{}
}

func (w *Worker) flush() {
	w.c.mu.Lock()
	for cl, m := range w.local {
		g := w.c.distinct[cl]
		if g == nil {
			g = map[[8]byte]struct{}{}
			w.c.distinct[cl] = g
		}
		for k := range m {
			g[k] = struct{}{}
		}
	}
	w.c.mu.Unlock()
}

// Sub is one named, replayable sub-check over a typed case space.
type Sub[C any] struct {
	Name string
	Eval func(w *Worker, c C) *Fail
}

var replayers = map[string]func(raw json.RawMessage) *Fail{}
var subProps = map[string]string{}

// NewSub registers a sub-check; name must be "<PROP>/<what>".
func NewSub[C any](name string, eval func(w *Worker, c C) *Fail) *Sub[C] {
	if _, dup := replayers[name]; dup {
		panic("duplicate sub " + name)
	}
	replayers[name] = func(raw json.RawMessage) *Fail {
		var c C
		if err := json.Unmarshal(raw, &c); err != nil {
			InternalError("replay: cannot decode case for %s: %v", name, err)
		}
		w := &Worker{c: NewCtx("", "quick", 0, ""), local: map[string]map[[8]byte]struct{}{}}
		return safeEval(eval, w, c)
	}
	subProps[name] = strings.SplitN(name, "/", 2)[0]
	return &Sub[C]{Name: name, Eval: eval}
}

func safeEval[C any](eval func(w *Worker, c C) *Fail, w *Worker, c C) (f *Fail) {
	defer func() {
		if r := recover(); r != nil {
			f = PanicToFail(r)
		}
	}()
	return eval(w, c)
}

// PanicToFail classifies a recovered panic by where it was raised: inside
// the library under test (a failure of the case being run) or inside the
// harness (a machinery error: exit 2, never a VIOLATION). Must be called from
// the deferred function that recovered.
func PanicToFail(r any) *Fail {
	buf := make([]byte, 16384)
	buf = buf[:runtime.Stack(buf, false)]
	st := string(buf)
	// frames after the panic call, innermost first
	origin := "harness"
	if i := strings.Index(st, "panic("); i >= 0 {
		rest := st[i:]
		lines := strings.Split(rest, "\n")
		for _, ln := range lines[2:] {
			if strings.HasPrefix(ln, "\t") || ln == "" {
				continue
			}
			if strings.HasPrefix(ln, "runtime.") || strings.HasPrefix(ln, "panic(") {
				continue
			}
			if strings.HasPrefix(ln, "filippo.io/edwards25519") {
				origin = "library"
			}
			break
		}
	}
	if origin != "library" {
		InternalError("panic raised in harness code: %v\n%s", r, st)
	}
	if len(st) > 1800 {
		st = st[:1800]
	}
	return Failf("the library panicked on inputs that are valid for this case: %v\n%s", r, st)
}

// Run evaluates gen(i) for every i in [0,n) on all cores. Completed index
// ranges are exhaustive; a deadline stops the enumeration early (recorded).
func (s *Sub[C]) Run(ctx *Ctx, n int, gen func(i int) C) {
	st := &SubStat{}
	ctx.mu.Lock()
	if old, ok := ctx.subs[s.Name]; ok {
		st = old
	} else {
		ctx.subs[s.Name] = st
		ctx.subOrder = append(ctx.subOrder, s.Name)
	}
	ctx.mu.Unlock()
	if n == 0 {
		st.Completed = true
		return
	}
	workers := runtime.GOMAXPROCS(0)
	if os.Getenv("VERIF_SEQUENTIAL") != "" {
		workers = 1
		ctx.Note("evaluated sequentially (parallel evaluation produced unreproducible failures: the tree may not be safe for concurrent use, see C18)")
	}
	if workers > n {
		workers = n
	}
	chunk := n / (workers * 16)
	if chunk < 1 {
		chunk = 1
	}
	if chunk > 4096 {
		chunk = 4096
	}
	var next int64
	var stop int32
	var wg sync.WaitGroup
	var done int64
	for wi := 0; wi < workers; wi++ {
		wg.Add(1)
		go func() {
			defer wg.Done()
			w := &Worker{c: ctx, local: map[string]map[[8]byte]struct{}{}}
			defer w.flush()
			for {
				if atomic.LoadInt32(&stop) != 0 {
					return
				}
				lo := int(atomic.AddInt64(&next, int64(chunk))) - chunk
				if lo >= n {
					return
				}
				hi := lo + chunk
				if hi > n {
					hi = n
				}
				for i := lo; i < hi; i++ {
					c := gen(i)
					if f := safeEval(s.Eval, w, c); f != nil {
						raw, err := json.Marshal(c)
						if err != nil {
							InternalError("cannot encode case of %s: %v", s.Name, err)
						}
						ctx.mu.Lock()
						st.Violations++
						ctx.totalViol++
						ctx.viol = append(ctx.viol, violation{Sub: s.Name, Index: i, Case: raw, Msg: f.Msg})
						// keep the list bounded: lowest indices per sub win
						if len(ctx.viol) > 4096 {
							trimViolations(ctx)
						}
						ctx.mu.Unlock()
					}
				}
				atomic.AddInt64(&done, int64(hi-lo))
				if ctx.Expired() {
					atomic.StoreInt32(&stop, 1)
					return
				}
			}
		}()
	}
	wg.Wait()
	atomic.AddInt64(&ctx.evals, done)
	st.Cases += done
	if int(done) == n {
		st.Completed = true
	} else {
		ctx.NotExhaustive(fmt.Sprintf("%s stopped by internal deadline after %d of %d cases", s.Name, done, n))
	}
	// samples: first, middle, last case
	for _, i := range []int{0, n / 2, n - 1} {
		ctx.Sample(map[string]any{"sub": s.Name, "index": i, "case": gen(i)})
	}
}

// RunList is Run over a materialised slice.
func (s *Sub[C]) RunList(ctx *Ctx, cases []C) {
	s.Run(ctx, len(cases), func(i int) C { return cases[i] })
}

func trimViolations(ctx *Ctx) {
	sort.SliceStable(ctx.viol, func(a, b int) bool {
		if ctx.viol[a].Sub != ctx.viol[b].Sub {
			return ctx.viol[a].Sub < ctx.viol[b].Sub
		}
		return ctx.viol[a].Index < ctx.viol[b].Index
	})
	// Keep at most 64 per sub: the 24 lowest indices plus 40 spread evenly
	// over the rest (later cases of a state machine carry longer histories,
	// which is what reproduces when a tree has become history dependent).
	var out []violation
	for i := 0; i < len(ctx.viol); {
		j := i
		for j < len(ctx.viol) && ctx.viol[j].Sub == ctx.viol[i].Sub {
			j++
		}
		grp := ctx.viol[i:j]
		if len(grp) <= 64 {
			out = append(out, grp...)
		} else {
			out = append(out, grp[:24]...)
			rest := grp[24:]
			for k := 0; k < 40; k++ {
				out = append(out, rest[k*len(rest)/40])
			}
		}
		i = j
	}
	ctx.viol = out
}

// AddEvals lets engines that do their own enumeration report counts.
func (c *Ctx) AddEvals(n int64) { atomic.AddInt64(&c.evals, n) }

// ReportViolation lets engines with their own enumeration (opseq, sched)
// record a violation with a self-contained replayable case.
func (c *Ctx) ReportViolation(sub string, index int, cs any, msg string) {
	raw, err := json.Marshal(cs)
	if err != nil {
		InternalError("cannot encode case of %s: %v", sub, err)
	}
	c.mu.Lock()
	st := c.subs[sub]
	if st == nil {
		st = &SubStat{}
		c.subs[sub] = st
		c.subOrder = append(c.subOrder, sub)
	}
	st.Violations++
	c.totalViol++
	c.viol = append(c.viol, violation{Sub: sub, Index: index, Case: raw, Msg: msg})
	if len(c.viol) > 4096 {
		trimViolations(c)
	}
	c.mu.Unlock()
}

func (c *Ctx) SubDone(sub string, cases int64, completed bool) {
	c.mu.Lock()
	st := c.subs[sub]
	if st == nil {
		st = &SubStat{}
		c.subs[sub] = st
		c.subOrder = append(c.subOrder, sub)
	}
	st.Cases += cases
	st.Completed = completed
	c.mu.Unlock()
}

// RegisterReplayer registers a replay function for engines that do not use Sub.
func RegisterReplayer(name string, f func(raw json.RawMessage) *Fail) {
	if _, dup := replayers[name]; dup {
		panic("duplicate sub " + name)
	}
	replayers[name] = f
	subProps[name] = strings.SplitN(name, "/", 2)[0]
}

// ---- known findings ----

type knownFindings struct {
	known map[string]string // key -> description
}

func loadKnown(verifDir string) knownFindings {
	kf := knownFindings{known: map[string]string{}}
	b, err := os.ReadFile(filepath.Join(verifDir, "known_findings.txt"))
	if err != nil {
		return kf
	}
	for _, line := range strings.Split(string(b), "\n") {
		line = strings.TrimSpace(line)
		if !strings.HasPrefix(line, "known:") {
			continue // "fixed:" lines and comments suppress nothing
		}
		// known: property=C01 key=<sub>:<casehash> <description>
		fields := strings.Fields(line)
		var prop, key string
		for _, f := range fields {
			if strings.HasPrefix(f, "property=") {
				prop = strings.TrimPrefix(f, "property=")
			}
			if strings.HasPrefix(f, "key=") {
				key = strings.TrimPrefix(f, "key=")
			}
		}
		if prop != "" && key != "" {
			kf.known[prop+" "+key] = line
		}
	}
	return kf
}

func caseKey(sub string, raw json.RawMessage) string {
	h := sha256.Sum256(raw)
	return sub + ":" + hex.EncodeToString(h[:8])
}

// Finish writes evidence, replay files and exits with the contract's status.
// confirmFresh re-executes a violation in fresh processes (5 runs). Package
// state corrupted by an earlier violating case, or races between in-process
// workers on state a mutated tree shares, cannot influence it. Returns
// (reproduced every time, reproduced at least once).
func confirmFresh(verifDir string, v violation, prop string) (bool, bool) {
	exe, err := os.Executable()
	if err != nil {
		InternalError("cannot find own executable: %v", err)
	}
	dir := filepath.Join(outDir(verifDir), "replays")
	os.MkdirAll(dir, 0o755)
	tmp := filepath.Join(dir, fmt.Sprintf(".confirm-%d.json", os.Getpid()))
	b, _ := json.Marshal(map[string]any{"property": prop, "sub": v.Sub, "case": v.Case})
	if err := os.WriteFile(tmp, b, 0o644); err != nil {
		InternalError("cannot write %s: %v", tmp, err)
	}
	defer os.Remove(tmp)
	all, any := true, false
	for k := 0; k < 5; k++ {
		cmd := exec.Command(exe, "-replay", tmp, "-verif", verifDir)
		cmd.Env = append(os.Environ(), "VERIF_SHARD=")
		err := cmd.Run()
		code := 0
		if ee, ok := err.(*exec.ExitError); ok {
			code = ee.ExitCode()
		} else if err != nil {
			InternalError("cannot run confirmation subprocess: %v", err)
		}
		switch code {
		case 1:
			any = true
		case 0:
			all = false
		default:
			InternalError("confirmation subprocess for %s exited %d", v.Sub, code)
		}
	}
	return all && any, any
}

// Finish writes evidence, replay files and exits with the contract's status.
func (c *Ctx) Finish(verifDir string) {
	if c.shard != nil {
		c.finishShard()
	}
	trimViolations(c)
	if os.Getenv("VERIF_SEQ_PROBE") != "" && len(c.viol) > 0 {
		fmt.Printf("SEQ-FIRST-FAILURE %s\n", caseKey(c.viol[0].Sub, c.viol[0].Case))
		os.Exit(3)
	}
	kf := loadKnown(verifDir)
	recorded := len(c.viol)
	label := c.Prop
	if c.ReportAs != "" {
		label = c.ReportAs
	}
	if c.DigestFile != "" {
		c.writeDigest()
	}
	var confirmed []violation
	knownHits := map[string]bool{}
	perSubConfirmed := map[string]int{}
	perSubTried := map[string]int{}
	dropped, flaky := 0, 0
	for _, v := range c.viol {
		if replayers[v.Sub] == nil {
			InternalError("violation from unregistered sub %s", v.Sub)
		}
		if perSubConfirmed[v.Sub] >= 3 || perSubTried[v.Sub] >= 64 {
			continue
		}
		perSubTried[v.Sub]++
		all, any := confirmFresh(verifDir, v, label)
		if !all {
			if any {
				flaky++
				c.Note(fmt.Sprintf("violation of %s reproduced only sometimes in fresh processes (dropped): %s", v.Sub, firstLine(v.Msg)))
			} else {
				dropped++
			}
			continue
		}
		key := label + " " + caseKey(v.Sub, v.Case)
		if line, ok := kf.known[key]; ok {
			if !knownHits[key] {
				fmt.Printf("KNOWN-FINDING: property=%s %s\n", label, line)
				knownHits[key] = true
			}
			continue
		}
		perSubConfirmed[v.Sub]++
		confirmed = append(confirmed, v)
	}
	if dropped > 0 {
		c.Note(fmt.Sprintf("%d recorded failures did not reproduce in a fresh process (collateral of an earlier violating case in the same process) and were dropped", dropped))
	}
	if recorded > 0 && len(confirmed) == 0 && len(knownHits) == 0 && os.Getenv("VERIF_SEQUENTIAL") == "" {
		// Failures seen while cases ran on parallel goroutines, none of which
		// reproduces alone in a fresh process: the library may have become
		// unsafe for concurrent use (that is property C18's business). Decide
		// this property by evaluating every case sequentially instead.
		fmt.Printf("note: %d failures under parallel evaluation did not reproduce in fresh processes; re-running the whole check sequentially\n", recorded)
		exe, err := os.Executable()
		if err != nil {
			InternalError("%v", err)
		}
		cmd := exec.Command(exe, os.Args[1:]...)
		cmd.Env = append(os.Environ(), "VERIF_SEQUENTIAL=1", "GOMAXPROCS=1")
		cmd.Stdout, cmd.Stderr = os.Stdout, os.Stderr
		err = cmd.Run()
		if ee, ok := err.(*exec.ExitError); ok {
			os.Exit(ee.ExitCode())
		} else if err != nil {
			InternalError("sequential re-run: %v", err)
		}
		os.Exit(0)
	}
	historyViolation := false
	if recorded > 0 && len(confirmed) == 0 && len(knownHits) == 0 {
		// Sequential evaluation (one goroutine, fixed case order) is a deterministic history. A failure
		// that no single case reproduces alone but that the same history reproduces at the same case in
		// fresh processes is a violation that needs the history (package state built up by earlier
		// calls: a cache with an eviction rule, a counter): confirm it by replaying the history.
		first := c.viol[0]
		fkey := caseKey(first.Sub, first.Case)
		if os.Getenv("VERIF_SEQ_PROBE") != "" {
			fmt.Printf("SEQ-FIRST-FAILURE %s\n", fkey)
			os.Exit(3)
		}
		same := 0
		for k := 0; k < 2; k++ {
			if seqProbe(os.Args[1:]) == fkey {
				same++
			}
		}
		if same == 2 {
			c.Note("a failure that no single case reproduces in a fresh process is reproduced at the same case by the sequential history of the whole check in fresh processes (3/3): reported with the history as its replay")
			confirmed = append(confirmed, first)
			historyViolation = true
		}
	}
	if recorded > 0 && len(confirmed) == 0 && len(knownHits) == 0 {
		if !c.NoEvidence {
			c.writeEvidence(verifDir, 0, 0)
		}
		InternalError("%d failures were recorded but none reproduced 5/5 in fresh processes (machinery nondeterminism); first: %s: %s", recorded, c.viol[0].Sub, firstLine(c.viol[0].Msg))
	}
	if os.Getenv("VERIF_VERBOSE") != "" {
		for _, v := range c.viol {
			fmt.Printf("  [all] sub=%s index=%d case=%s: %s\n", v.Sub, v.Index, string(v.Case), firstLine(v.Msg))
		}
	}
	var replayPaths []string
	for _, v := range confirmed {
		h := sha256.Sum256(append([]byte(v.Sub), v.Case...))
		name := fmt.Sprintf("%s-%s.json", label, hex.EncodeToString(h[:6]))
		path := filepath.Join(outDir(verifDir), "replays", name)
		os.MkdirAll(filepath.Dir(path), 0o755)
		rec := map[string]any{"property": label, "sub": v.Sub, "case": v.Case, "msg": v.Msg,
			"key": caseKey(v.Sub, v.Case), "build_tags": c.BuildTags}
		if historyViolation {
			rec["history"] = "sequential evaluation of the whole check up to this case (VERIF_SEQUENTIAL=1 GOMAXPROCS=1)"
			rec["run"] = map[string]string{"prop": c.Prop, "tier": c.Tier}
		}
		b, _ := json.MarshalIndent(rec, "", " ")
		if err := os.WriteFile(path, b, 0o644); err != nil {
			InternalError("cannot write replay file: %v", err)
		}
		replayPaths = append(replayPaths, path)
		fmt.Printf("VIOLATION property=%s replay=%s\n", label, path)
		fmt.Printf("  sub=%s index=%d: %s\n", v.Sub, v.Index, firstLine(v.Msg))
	}
	if !c.NoEvidence {
		c.writeEvidence(verifDir, int(c.totalViol), len(knownHits))
	}
	el := time.Since(c.Start).Seconds()
	if len(confirmed) > 0 {
		fmt.Printf("FAIL property=%s (run of %s, build tags %q) tier=%s failing-cases=%d confirmed-and-written=%d wall=%.1fs\n", label, c.Prop, c.BuildTags, c.Tier, c.totalViol, len(replayPaths), el)
		os.Exit(1)
	}
	fmt.Printf("PASS property=%s tier=%s evaluations=%d states=%d transitions=%d exhaustive=%v wall=%.1fs\n",
		c.Prop, c.Tier, c.evals, c.states, c.transitions, c.exhaustive, el)
	os.Exit(0)
}

func firstLine(s string) string {
	if i := strings.IndexByte(s, '\n'); i >= 0 {
		return s[:i]
	}
	return s
}

func (c *Ctx) writeEvidence(verifDir string, nviol, nknown int) {
	dn := 0
	dclasses := map[string]int{}
	for cl, m := range c.distinct {
		dclasses[cl] = len(m)
		if strings.HasPrefix(cl, "nontrivial") {
			dn += len(m)
		}
	}
	subs := map[string]*SubStat{}
	for k, v := range c.subs {
		subs[k] = v
	}
	cov := map[string]any{
		"evaluations":         c.evals,
		"distinct_nontrivial": dn,
		"rule":                strings.Join(c.rule, " | "),
		"samples":             c.samples,
		"exhaustive":          c.exhaustive,
		"sub_checks":          subs,
		"distinct_by_class":   dclasses,
		"notes":               c.notes,
	}
	if c.Level == "model_checking" {
		cov["states"] = c.states
		cov["transitions"] = c.transitions
		cov["traces_validated_against_impl"] = c.traces
	}
	for k, v := range c.extra {
		cov[k] = v
	}
	if len(c.samples) == 0 {
		cov["samples"] = []any{"(no cases were run)"}
	}
	ev := map[string]any{
		"property_id":    c.Prop,
		"tier":           c.Tier,
		"seed":           c.Seed,
		"level":          c.Level,
		"coverage":       cov,
		"assumptions":    c.assumptions,
		"wall_s":         time.Since(c.Start).Seconds(),
		"violations":     nviol,
		"known_findings": nknown,
	}
	if c.assumptions == nil {
		ev["assumptions"] = []string{}
	}
	b, err := json.MarshalIndent(ev, "", " ")
	if err != nil {
		InternalError("evidence encode: %v", err)
	}
	dir := filepath.Join(outDir(verifDir), "evidence")
	os.MkdirAll(dir, 0o755)
	tmp := filepath.Join(dir, fmt.Sprintf(".%s.%d.tmp", c.Prop, os.Getpid()))
	if err := os.WriteFile(tmp, b, 0o644); err != nil {
		InternalError("evidence write: %v", err)
	}
	if err := os.Rename(tmp, filepath.Join(dir, c.Prop+".json")); err != nil {
		InternalError("evidence rename: %v", err)
	}
}

// Replay re-executes the case stored in a replay file; exit 1 + VIOLATION if
// it still fails, 0 if it passes now.
// seqProbe runs the whole check sequentially in a fresh process and returns the key of its first
// recorded failure ("" if none).
func seqProbe(args []string) string {
	exe, err := os.Executable()
	if err != nil {
		InternalError("%v", err)
	}
	cmd := exec.Command(exe, args...)
	cmd.Env = append(os.Environ(), "VERIF_SEQUENTIAL=1", "VERIF_SEQ_PROBE=1", "GOMAXPROCS=1", "VERIF_SHARD=")
	out, _ := cmd.Output()
	for _, l := range strings.Split(string(out), "\n") {
		if strings.HasPrefix(l, "SEQ-FIRST-FAILURE ") {
			return strings.TrimSpace(strings.TrimPrefix(l, "SEQ-FIRST-FAILURE "))
		}
	}
	return ""
}

func Replay(path string) {
	b, err := os.ReadFile(path)
	if err != nil {
		InternalError("replay: %v", err)
	}
	var r struct {
		Property string            `json:"property"`
		Sub      string            `json:"sub"`
		Case     json.RawMessage   `json:"case"`
		History  string            `json:"history"`
		Run      map[string]string `json:"run"`
		Key      string            `json:"key"`
		Msg      string            `json:"msg"`
	}
	if err := json.Unmarshal(b, &r); err != nil {
		InternalError("replay: %v", err)
	}
	if r.History != "" {
		// the violation needs the history: replay the sequential evaluation of the whole check
		verif, out := "/verif", ""
		for i, a := range os.Args {
			if a == "-verif" && i+1 < len(os.Args) {
				verif = os.Args[i+1]
			}
			if a == "-out" && i+1 < len(os.Args) {
				out = os.Args[i+1]
			}
		}
		args := []string{"-prop", r.Run["prop"], "-tier", r.Run["tier"], "-verif", verif, "-no-evidence"}
		if out != "" {
			args = append(args, "-out", out)
		}
		if got := seqProbe(args); got == r.Key {
			fmt.Printf("VIOLATION property=%s replay=%s\n  %s\n", r.Property, path, firstLine(r.Msg))
			os.Exit(1)
		}
		fmt.Printf("replay of %s: the sequential history no longer fails at this case on this tree\n", path)
		os.Exit(0)
	}
	rp := replayers[r.Sub]
	if rp == nil {
		InternalError("replay: unknown sub %q", r.Sub)
	}
	f := rp(r.Case)
	if f != nil {
		fmt.Printf("VIOLATION property=%s replay=%s\n  %s\n", r.Property, path, f.Msg)
		os.Exit(1)
	}
	fmt.Printf("replay of %s: case passes on this tree\n", path)
	os.Exit(0)
}

func Subs() []string {
	var out []string
	for k := range replayers {
		out = append(out, k)
	}
	sort.Strings(out)
	return out
}

// Digest is the order-independent summary of every value-level observation
// class ("nontrivial:*") of a run: count and XOR of the observation hashes.
type Digest struct {
	Evaluations int64                `json:"evaluations"`
	Classes     map[string][2]uint64 `json:"classes"`
}

func (c *Ctx) ComputeDigest() Digest {
	d := Digest{Evaluations: c.evals, Classes: map[string][2]uint64{}}
	for cl, m := range c.distinct {
		if !strings.HasPrefix(cl, "nontrivial:") {
			continue
		}
		var x uint64
		for k := range m {
			var v uint64
			for i := 0; i < 8; i++ {
				v |= uint64(k[i]) << (8 * i)
			}
			x ^= v
		}
		d.Classes[cl] = [2]uint64{uint64(len(m)), x}
	}
	return d
}

func (c *Ctx) writeDigest() {
	b, _ := json.Marshal(c.ComputeDigest())
	if err := os.WriteFile(c.DigestFile, b, 0o644); err != nil {
		InternalError("digest: %v", err)
	}
}

// Vacuous is a vacuity guard: a degenerate space on a tree without recorded
// failures is a machinery error (exit 2); with failures it is a consequence
// of the breakage and is ignored.
func (c *Ctx) Vacuous(format string, a ...any) {
	c.mu.Lock()
	n := c.totalViol
	c.mu.Unlock()
	if n > 0 {
		c.Note("vacuity guard ignored because failures were recorded: " + fmt.Sprintf(format, a...))
		return
	}
	InternalError(format, a...)
}
