// Package atomic replaces sync/atomic in the scheduling build (overlay only).
// Go's atomics are sequentially consistent: every store releases, every load
// acquires, read-modify-write does both.
package atomic

import "filippo.io/edwards25519/vsched"

type word[T comparable] struct {
	v  T
	vc vsched.VC
}

func (w *word[T]) load(kind string) T {
	vsched.Point("atomic-load", kind)
	vsched.Acquire(&w.vc)
	return w.v
}
func (w *word[T]) store(kind string, v T) {
	vsched.Point("atomic-store", kind)
	vsched.Release(&w.vc)
	w.v = v
}
func (w *word[T]) swap(kind string, v T) T {
	vsched.Point("atomic-swap", kind)
	vsched.Acquire(&w.vc)
	vsched.Release(&w.vc)
	o := w.v
	w.v = v
	return o
}
func (w *word[T]) cas(kind string, old, new T) bool {
	vsched.Point("atomic-cas", kind)
	vsched.Acquire(&w.vc)
	if w.v != old {
		return false
	}
	vsched.Release(&w.vc)
	w.v = new
	return true
}

type Uint32 struct{ w word[uint32] }

func (x *Uint32) Load() uint32                    { return x.w.load("uint32") }
func (x *Uint32) Store(v uint32)                  { x.w.store("uint32", v) }
func (x *Uint32) Swap(v uint32) uint32            { return x.w.swap("uint32", v) }
func (x *Uint32) CompareAndSwap(o, n uint32) bool { return x.w.cas("uint32", o, n) }
func (x *Uint32) Add(d uint32) uint32 {
	vsched.Point("atomic-add", "uint32")
	vsched.Acquire(&x.w.vc)
	vsched.Release(&x.w.vc)
	x.w.v += d
	return x.w.v
}

type Int32 struct{ w word[int32] }

func (x *Int32) Load() int32                    { return x.w.load("int32") }
func (x *Int32) Store(v int32)                  { x.w.store("int32", v) }
func (x *Int32) Swap(v int32) int32             { return x.w.swap("int32", v) }
func (x *Int32) CompareAndSwap(o, n int32) bool { return x.w.cas("int32", o, n) }
func (x *Int32) Add(d int32) int32 {
	vsched.Point("atomic-add", "int32")
	vsched.Acquire(&x.w.vc)
	vsched.Release(&x.w.vc)
	x.w.v += d
	return x.w.v
}

type Uint64 struct{ w word[uint64] }

func (x *Uint64) Load() uint64                    { return x.w.load("uint64") }
func (x *Uint64) Store(v uint64)                  { x.w.store("uint64", v) }
func (x *Uint64) CompareAndSwap(o, n uint64) bool { return x.w.cas("uint64", o, n) }

type Int64 struct{ w word[int64] }

func (x *Int64) Load() int64                    { return x.w.load("int64") }
func (x *Int64) Store(v int64)                  { x.w.store("int64", v) }
func (x *Int64) CompareAndSwap(o, n int64) bool { return x.w.cas("int64", o, n) }

type Bool struct{ w word[bool] }

func (x *Bool) Load() bool                    { return x.w.load("bool") }
func (x *Bool) Store(v bool)                  { x.w.store("bool", v) }
func (x *Bool) Swap(v bool) bool              { return x.w.swap("bool", v) }
func (x *Bool) CompareAndSwap(o, n bool) bool { return x.w.cas("bool", o, n) }

type Pointer[T any] struct {
	v  *T
	vc vsched.VC
}

func (x *Pointer[T]) Load() *T {
	vsched.Point("atomic-load", "pointer")
	vsched.Acquire(&x.vc)
	return x.v
}
func (x *Pointer[T]) Store(v *T) {
	vsched.Point("atomic-store", "pointer")
	vsched.Release(&x.vc)
	x.v = v
}
func (x *Pointer[T]) CompareAndSwap(o, n *T) bool {
	vsched.Point("atomic-cas", "pointer")
	vsched.Acquire(&x.vc)
	if x.v != o {
		return false
	}
	vsched.Release(&x.vc)
	x.v = n
	return true
}

// Function-style API on plain words: no per-word clock is available, so a
// single global clock orders them (coarser: may hide races between unrelated
// atomics, never invents one).
var globalVC vsched.VC

func LoadUint32(p *uint32) uint32 {
	vsched.Point("atomic-load", "uint32")
	vsched.Acquire(&globalVC)
	return *p
}
func StoreUint32(p *uint32, v uint32) {
	vsched.Point("atomic-store", "uint32")
	vsched.Release(&globalVC)
	*p = v
}
func CompareAndSwapUint32(p *uint32, o, n uint32) bool {
	vsched.Point("atomic-cas", "uint32")
	vsched.Acquire(&globalVC)
	if *p != o {
		return false
	}
	vsched.Release(&globalVC)
	*p = n
	return true
}
func AddUint32(p *uint32, d uint32) uint32 {
	vsched.Point("atomic-add", "uint32")
	vsched.Acquire(&globalVC)
	vsched.Release(&globalVC)
	*p += d
	return *p
}
func LoadInt32(p *int32) int32 {
	vsched.Point("atomic-load", "int32")
	vsched.Acquire(&globalVC)
	return *p
}
func StoreInt32(p *int32, v int32) {
	vsched.Point("atomic-store", "int32")
	vsched.Release(&globalVC)
	*p = v
}
func CompareAndSwapInt32(p *int32, o, n int32) bool {
	vsched.Point("atomic-cas", "int32")
	vsched.Acquire(&globalVC)
	if *p != o {
		return false
	}
	vsched.Release(&globalVC)
	*p = n
	return true
}
func LoadUint64(p *uint64) uint64 {
	vsched.Point("atomic-load", "uint64")
	vsched.Acquire(&globalVC)
	return *p
}
func StoreUint64(p *uint64, v uint64) {
	vsched.Point("atomic-store", "uint64")
	vsched.Release(&globalVC)
	*p = v
}
