package checks

import (
	"bytes"
	"fmt"
	"math/big"

	"filippo.io/edwards25519"
	"verif/harness/alpha"
	"verif/harness/core"
	"verif/harness/ref"
)

// C07 - scalar arithmetic is arithmetic in Z/l.

type scUnCase struct {
	Op string `json:"op"`
	X  Hex    `json:"x"`
}
type scBinCase struct {
	Op string `json:"op"`
	X  Hex    `json:"x"`
	Y  Hex    `json:"y"`
}
type scTriCase struct {
	X Hex `json:"x"`
	Y Hex `json:"y"`
	Z Hex `json:"z"`
}

func checkScalarIs(s *edwards25519.Scalar, want *big.Int, what string) *core.Fail {
	got := s.Bytes()
	w := ref.LE32(want)
	if !bytes.Equal(got, w[:]) {
		return core.Failf("%s: Bytes()=%x want %x", what, got, w[:])
	}
	return nil
}

var subC07Unary = core.NewSub("C07/unary", func(w *core.Worker, c scUnCase) *core.Fail {
	x := scalarOf(c.X)
	xv := ref.FromLE(c.X)
	r := new(edwards25519.Scalar)
	var want *big.Int
	var ret *edwards25519.Scalar
	switch c.Op {
	case "Negate":
		ret = r.Negate(x)
		want = ref.SNeg(xv)
	case "Invert":
		ret = r.Invert(x)
		want = ref.SInv(xv)
		// x * Invert(x) = 1 unless x = 0
		prod := new(edwards25519.Scalar).Multiply(x, r)
		pw := big.NewInt(1)
		if xv.Sign() == 0 {
			pw = big.NewInt(0)
		}
		if f := checkScalarIs(prod, pw, "x*Invert(x)"); f != nil {
			return f
		}
	case "Set":
		ret = r.Set(x)
		want = xv
	case "RoundTrip":
		ret = r
		r2, err := r.SetCanonicalBytes(x.Bytes())
		if err != nil || r2 != r {
			return core.Failf("SetCanonicalBytes(Bytes(x)) failed: %v", err)
		}
		want = xv
		if r.Equal(x) != 1 {
			return core.Failf("SetCanonicalBytes(Bytes(x)) not Equal to x")
		}
	default:
		panic("bad op")
	}
	if ret != r {
		return core.Failf("%s did not return the receiver", c.Op)
	}
	w.Distinct("nontrivial:scalar-results", r.Bytes())
	// (arguments staying untouched is property C11's business, not C07's)
	return checkScalarIs(r, want, c.Op)
})

var subC07Binary = core.NewSub("C07/binary", func(w *core.Worker, c scBinCase) *core.Fail {
	x, y := scalarOf(c.X), scalarOf(c.Y)
	xv, yv := ref.FromLE(c.X), ref.FromLE(c.Y)
	r := new(edwards25519.Scalar)
	var want *big.Int
	switch c.Op {
	case "Add":
		if r.Add(x, y) != r {
			return core.Failf("Add did not return receiver")
		}
		want = ref.SAdd(xv, yv)
	case "Subtract":
		if r.Subtract(x, y) != r {
			return core.Failf("Subtract did not return receiver")
		}
		want = ref.SSub(xv, yv)
	case "Multiply":
		if r.Multiply(x, y) != r {
			return core.Failf("Multiply did not return receiver")
		}
		want = ref.SMul(xv, yv)
	case "Equal":
		got := x.Equal(y)
		exp := 0
		if xv.Cmp(yv) == 0 {
			exp = 1
		}
		if got != exp {
			return core.Failf("Equal(%x,%x)=%d want %d", []byte(c.X), []byte(c.Y), got, exp)
		}
		w.Distinct("equal-outcomes", []byte{byte(got)})
		return nil
	default:
		panic("bad op")
	}
	w.Distinct("nontrivial:scalar-results", r.Bytes())
	return checkScalarIs(r, want, c.Op)
})

var subC07MulAdd = core.NewSub("C07/multiplyadd", func(w *core.Worker, c scTriCase) *core.Fail {
	x, y, z := scalarOf(c.X), scalarOf(c.Y), scalarOf(c.Z)
	r := new(edwards25519.Scalar)
	if r.MultiplyAdd(x, y, z) != r {
		return core.Failf("MultiplyAdd did not return receiver")
	}
	want := ref.SAdd(ref.SMul(ref.FromLE(c.X), ref.FromLE(c.Y)), ref.FromLE(c.Z))
	w.Distinct("nontrivial:scalar-results", r.Bytes())
	return checkScalarIs(r, want, "MultiplyAdd")
})

// Equal near-misses: x vs x + 2^k for every bit position of the value and of
// the Montgomery form (so that the internal difference sits at every bit).
var subC07EqualBits = core.NewSub("C07/equal-bits", func(w *core.Worker, c scBinCase) *core.Fail {
	x, y := scalarOf(c.X), scalarOf(c.Y)
	exp := 0
	if bytes.Equal(c.X, c.Y) {
		exp = 1
	}
	if got := x.Equal(y); got != exp {
		return core.Failf("Equal(%x,%x)=%d want %d", []byte(c.X), []byte(c.Y), got, exp)
	}
	if got := y.Equal(x); got != exp {
		return core.Failf("Equal(%x,%x)=%d want %d", []byte(c.Y), []byte(c.X), got, exp)
	}
	w.Distinct("equal-outcomes", []byte{byte(exp)})
	return nil
})

// ---- scalar register machine ----

type scState struct {
	R [3]edwards25519.Scalar
	M [3]*big.Int
}

func scalarMachine() *core.Machine[scState] {
	names := []string{}
	for _, op := range []string{"Add", "Subtract", "Multiply"} {
		for r := 0; r < 3; r++ {
			for a := 0; a < 3; a++ {
				for b := 0; b < 3; b++ {
					names = append(names, fmt.Sprintf("%s %d %d %d", op, r, a, b))
				}
			}
		}
	}
	for _, op := range []string{"Negate", "Invert", "Set"} {
		for r := 0; r < 3; r++ {
			for a := 0; a < 3; a++ {
				names = append(names, fmt.Sprintf("%s %d %d", op, r, a))
			}
		}
	}
	for r := 0; r < 3; r++ {
		for a := 0; a < 3; a++ {
			for b := 0; b < 3; b++ {
				for c := 0; c < 3; c++ {
					names = append(names, fmt.Sprintf("MultiplyAdd %d %d %d %d", r, a, b, c))
				}
			}
		}
	}
	m := &core.Machine[scState]{
		Name: "C07/opseq",
		Inits: func(tier string) []scState {
			lm1 := new(big.Int).Sub(ref.L, big.NewInt(1))
			g := alpha.GenericScalar
			vals := [][3]*big.Int{
				{big.NewInt(0), big.NewInt(1), lm1},
				{g, lm1, big.NewInt(2)},
				{new(big.Int).Rsh(ref.L, 1), g, big.NewInt(0)},
			}
			var out []scState
			for _, v := range vals {
				var s scState
				for i := 0; i < 3; i++ {
					s.R[i] = *mkScalar(v[i])
					s.M[i] = v[i]
				}
				out = append(out, s)
			}
			// zero-value registers
			var z scState
			for i := range z.M {
				z.M[i] = big.NewInt(0)
			}
			z.R[1] = *mkScalar(g)
			z.M[1] = g
			out = append(out, z)
			return out
		},
		Ops:   func(tier string) []string { return names },
		Clone: func(s *scState) scState { return *s },
		Key: func(s *scState) []byte {
			var b []byte
			for i := range s.R {
				b = append(b, alpha.ScalarRaw(&s.R[i])...)
			}
			return b
		},
		Apply: func(s *scState, op string) (bool, *core.Fail) {
			var name string
			var r, a, b, c int
			var ret *edwards25519.Scalar
			if n, _ := fmt.Sscanf(op, "%s %d %d %d %d", &name, &r, &a, &b, &c); n < 3 {
				panic("bad op " + op)
			}
			before := [3][]byte{s.R[0].Bytes(), s.R[1].Bytes(), s.R[2].Bytes()}
			var want *big.Int
			switch name {
			case "Add":
				ret = s.R[r].Add(&s.R[a], &s.R[b])
				want = ref.SAdd(s.M[a], s.M[b])
			case "Subtract":
				ret = s.R[r].Subtract(&s.R[a], &s.R[b])
				want = ref.SSub(s.M[a], s.M[b])
			case "Multiply":
				ret = s.R[r].Multiply(&s.R[a], &s.R[b])
				want = ref.SMul(s.M[a], s.M[b])
			case "Negate":
				ret = s.R[r].Negate(&s.R[a])
				want = ref.SNeg(s.M[a])
			case "Invert":
				ret = s.R[r].Invert(&s.R[a])
				want = ref.SInv(s.M[a])
			case "Set":
				ret = s.R[r].Set(&s.R[a])
				want = s.M[a]
			case "MultiplyAdd":
				ret = s.R[r].MultiplyAdd(&s.R[a], &s.R[b], &s.R[c])
				want = ref.SAdd(ref.SMul(s.M[a], s.M[b]), s.M[c])
			}
			if ret != &s.R[r] {
				return false, core.Failf("%s did not return the receiver", name)
			}
			s.M[r] = want
			_ = before // non-receiver registers are covered by the Equal/Bytes checks below (values), not raw memory
			if f := checkScalarIs(&s.R[r], want, op); f != nil {
				return false, f
			}
			for i := 0; i < 3; i++ {
				for j := 0; j < 3; j++ {
					e := 0
					if s.M[i].Cmp(s.M[j]) == 0 {
						e = 1
					}
					if s.R[i].Equal(&s.R[j]) != e {
						return false, core.Failf("Equal(reg%d,reg%d) != %d after %s", i, j, e, op)
					}
				}
			}
			return true, nil
		},
	}
	return m.Register()
}

var c07Machine = scalarMachine()

func init() { register("C07", "model_checking", runC07) }

func runC07(ctx *core.Ctx) {
	ctx.Rule("unary ops over all of alphabet S; Add/Subtract/Multiply/Equal over all ordered pairs of S'; MultiplyAdd over all triples of a sub-alphabet; Equal on x vs x+2^k / Montgomery-bit neighbours; register machine (3 Scalar registers, every receiver/argument choice incl. aliasing) explored breadth-first with exact-state de-duplication. distinct_nontrivial = distinct result encodings")
	ctx.Assume("math/big is correct", "alphabet S (DESIGN.md section 2) stands for the l-element domain; values outside it are not decided")
	S := alpha.Scalars(smoke(ctx))
	enc := make([]Hex, len(S))
	for i, v := range S {
		enc[i] = le32(v)
	}
	// zero value
	var z edwards25519.Scalar
	if !bytes.Equal(z.Bytes(), make([]byte, 32)) || edwards25519.NewScalar().Equal(&z) != 1 {
		ctx.ReportViolation("C07/unary", -1, scUnCase{"ZeroValue", Hex{}}, "zero value Scalar is not 0")
	}
	unops := []string{"Negate", "Invert", "Set", "RoundTrip"}
	subC07Unary.Run(ctx, len(S)*len(unops), func(i int) scUnCase { return scUnCase{unops[i%len(unops)], enc[i/len(unops)]} })

	// binary: thorough uses the whole alphabet; quick a stride sub-alphabet
	B := enc
	if smoke(ctx) && len(B) > 220 {
		B = B[:220]
	}
	if ctx.Quick() && !smoke(ctx) && len(B) > 800 {
		B = B[:800]
	}
	binops := []string{"Add", "Subtract", "Multiply", "Equal"}
	nb := len(B)
	subC07Binary.Run(ctx, nb*nb*len(binops), func(i int) scBinCase {
		op := binops[i%len(binops)]
		j := i / len(binops)
		return scBinCase{op, B[j/nb], B[j%nb]}
	})
	T := enc
	nt := sz(ctx, 20, 48, 110)
	if len(T) > nt {
		// spread over the alphabet
		var sel []Hex
		for i := 0; i < nt; i++ {
			sel = append(sel, enc[i*len(enc)/nt])
		}
		T = sel
	}
	n3 := len(T)
	subC07MulAdd.Run(ctx, n3*n3*n3, func(i int) scTriCase { return scTriCase{T[i/(n3*n3)], T[(i/n3)%n3], T[i%n3]} })

	// Equal bit neighbours
	var eq []scBinCase
	rinv := new(big.Int).ModInverse(new(big.Int).Lsh(big.NewInt(1), 256), ref.L)
	bases := []*big.Int{big.NewInt(0), alpha.GenericScalar, new(big.Int).Sub(ref.L, big.NewInt(1))}
	for _, b := range bases {
		for k := uint(0); k < 256; k++ {
			d := new(big.Int).Lsh(big.NewInt(1), k)
			if k < 253 {
				eq = append(eq, scBinCase{"Equal", le32(b), le32(ref.SAdd(b, d))})
			}
			// difference 2^k in the Montgomery domain
			dm := ref.SMul(ref.SRed(d), rinv)
			eq = append(eq, scBinCase{"Equal", le32(b), le32(ref.SAdd(b, dm))})
		}
		eq = append(eq, scBinCase{"Equal", le32(b), le32(b)})
	}
	subC07EqualBits.RunList(ctx, eq)

	c07Machine.BFS(ctx, tierN(ctx, 2, 3), 3_000_000)
	if ctx.DistinctCount("equal-outcomes") != 2 {
		ctx.Vacuous("C07: vacuous Equal coverage")
	}
}
