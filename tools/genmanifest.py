#!/usr/bin/env python3
"""Regenerates /verif/MANIFEST.json from the table below (kept in one place so
the manifest stays valid while checks are added)."""
import json, os

V = os.path.dirname(os.path.dirname(os.path.abspath(__file__)))

MC = "model_checking"
EX = "exploration"

# id: (level, engine, technique, level text, level note, design ref)
CHECKS = {
 "C01": (MC, "recoder+opseq+lattice",
  "explicit-state search: BFS over the digit-recoder transducers (one witness per reachable transition, all replayed on the implementation) and over a 3-register Point machine on the real API; exhaustive enumeration of structured scalar/point alphabets against a math/big model",
  "Every reachable transition of the radix-16 / NAF-5 / NAF-8 recoders is driven through the real multiplication routines and compared with [k]Q computed in math/big; every lookup-table entry and selection is compared with the model; the five routines are explored as a register machine with every receiver state (zero value, identity, other point, aliased) and term count 0..3. Bounded-exhaustive: complete over the stated alphabets and depths, silent beyond them.",
  "math/big; the alphabets of DESIGN.md section 2 stand for the 2^252-element domains; overlay shim (tag verif) only sharpens coverage accounting", "3 C01"),
 "C02": (EX, "lattice", "exhaustive enumeration of all ordered pairs of a structured point alphabet x projective representations against the affine addition law in math/big",
  "All ordered pairs of alphabet P (all of E[8], multiples of B, mixed torsion points, closed under negation) in several projective/limb representations, compared through Bytes() and ExtendedCoordinates().",
  "math/big; points outside alphabet P are not decided", "3 C02"),
 "C03": (EX, "instr(ct)+ct+gdb",
  "2-safety by exhaustive enumeration: every constant-time entry point is executed on every secret of a structured alphabet under a leakage-trace build generated from the working tree (source-to-source instrumentation injected with -overlay); all executions of one public-shape class must yield one identical trace; the amd64 assembly is single-stepped under gdb",
  "45 entry points (the three constant-time multiplications with 0..3 terms, point arithmetic/comparison/encoding/import/export, table selection for every digit, all scalar and field operations incl. Select/Swap with both cond bits) x thousands of secrets (all recoder-transition witnesses, boundary scalars, torsion and mixed points in several representations, field forms and limb corners); the trace records every branch outcome, index, slice bound, shift count, div/mod operand, composite comparison and variable-time library call operand. Public shape = entry point, slice lengths, and the outcome of the documented zero-value test per Point argument. Run for the default and the purego build; feMul/feSquare assembly traced per instruction (pc, mnemonic, effective addresses).",
  "source-level leakage model (compiler output and micro-architecture not observed); bits.*, crypto/subtle, encoding/binary trusted; VarTime functions and decoder accept/reject decisions exempt per the statement", "3 C03"),
 "C04": (EX, "lattice", "exhaustive enumeration of input-string sets (all small y, the whole top-of-range window, complete one-byte deviation balls, all lengths) against an Euler-criterion/ModSqrt oracle",
  "Accept/reject and the decoded point are compared with the model for every string of the enumerated sets (about half accepted, half rejected; all 19 non-canonical residues and the x=0 sign cases are inside); every alphabet encoding is also decoded into receivers that hold a different point whose representation shares one or two stored coordinates with the decoded one.",
  "math/big; strings outside the enumerated sets are not decided", "3 C04"),
 "C05": (EX, "lattice", "exhaustive enumeration of (point, representation, producing operation) triples; byte-for-byte comparison with the model encoding",
  "Every alphabet point in 8 injected, 62 sparse-Z and 24 operation-produced representations (in-place, used and observed receivers) must encode to the model's canonical bytes and round-trip; two-step sequences Bytes(P);Bytes(Q);Bytes(P) over representations sharing stored coordinates; all non-canonical accepted inputs must re-encode canonically.",
  "math/big", "3 C05"),
 "C06": (EX, "lattice", "exhaustive enumeration of all ordered pairs of the point alphabet x representations; expected answer from model equality",
  "All ordered pairs (incl. P/-P, points sharing exactly one coordinate, all 64 torsion pairs), each side in several representations, both argument orders.",
  "math/big", "3 C06"),
 "C07": (MC, "lattice+opseq", "explicit-state BFS over a 3-register Scalar machine on the real API (every receiver/argument choice, exact-state dedup) plus exhaustive pairs/triples of a structured scalar alphabet against math/big",
  "All pairs of ~800 structured scalars (limb corners in both the integer and the Montgomery domain, all 2^k, l-2^k, ...) for Add/Subtract/Multiply/Equal, all triples of 48 for MultiplyAdd, Equal on every single-bit difference in both domains, and a register machine chaining the operations to depth 3 with all aliasing.",
  "math/big; scalars outside alphabet S are not decided", "3 C07"),
 "C08": (EX, "lattice", "exhaustive enumeration of deviation balls around boundary strings and of all lengths, against integer comparison / big.Int mod l",
  "Complete one-byte and boundary two-byte deviation balls around l-1, l, l+1, 0, 2^252, 2^256-1; one-byte balls of structured 64-byte inputs; the full 256x256 product of the two bytes clamping touches; alphabet S (incl. Montgomery-domain boundary images) zero-extended; rejected-then-valid sequences; all lengths 0..130. Thorough: COMPLETE two-byte balls (all position pairs x 65536 values) around l-1 and ff^64 (198 M strings).",
  "math/big", "3 C08"),
 "C09": (MC, "limbmodel+lattice+opseq", "abstract limb-bound transition system iterated to its fixpoint (closed box), every abstract transition replayed on the real code at the corner lattice of the box; explicit-state BFS over a 3-register Element machine; all against math/big",
  "The closed representation box is computed as a least fixpoint; every operation is executed on every vector of the box's corner lattice (incl. the all-maximal corner where every accumulator is largest), on all pairs of a coarser lattice, on every form of the field alphabet and on Mult32 chains, checking value and closure; real histories from SetBytes inputs are explored to depth 3.",
  "math/big; monotonicity of the overflow obligations extends the top corner to the box interior (pen-and-paper); unsafe limb injection guarded by a layout check", "3 C09"),
 "C10": (EX, "lattice", "exhaustive enumeration of limb forms of window values, corner lattices and byte-string balls against big.Int residues",
  "Bytes/IsNegative/Equal on every limb form of every integer in the fold windows around p and 2^255, on the corner lattice and on all alphabet forms; Select/Swap limb-exact for both cond values and all aliasing; SetBytes/SetWideBytes on byte balls, limb-straddling byte pairs and all lengths.",
  "math/big; limb vectors outside the closed box are not injected", "3 C10"),
 "C11": (MC, "lattice",
  "complete enumeration of the finite program space: every exported method x every set partition of its pointer operand positions into aliased groups x value tuples, each executed on the real code with shared and with distinct storage and compared",
  "The programs quantifier is finite and is covered completely (multi-scalar routines: every set partition of receiver+point slots x every partition of scalar slots up to 5 terms, 6 in the thorough tier: 23 k / 379 k programs), each for every tuple of a small value alphabet; operands that are not the receiver, byte slices up to cap, and the scalar/point slices (headers, elements, spare capacity, pointees) are compared bit for bit with snapshots.",
  "value alphabets are small (4-6 values per type); the distinct-storage run is the oracle (differential)", "3 C11"),
 "C12": (MC, "opseq", "explicit-state breadth-first search over a register machine whose transitions are the real exported operations; exact-state de-duplication; invariant evaluated with math/big in every reachable state",
  "Every exported Point-writing operation with every receiver/argument register choice, from 10-125 initial register assignments (uninitialised, identity, generator, order-8 point, mixed point in a scaled representation), to depth 2 on the full machine and depth 3 on a reduced one; in every state Z!=0, both curve identities, agreement with a shadow model, and Equal against identity/generator are checked. Both multi-scalar routines are also run over 21 (thorough 29) term-count size classes up to 257 (1025) x five scalar shapes: the result must be a valid point equal to the model.",
  "math/big; histories longer than the completed depth and values outside the alphabets are not decided", "3 C12"),
 "C13": (EX, "lattice", "exhaustive enumeration of coordinate quadruples (9^4 alphabet product, all limb forms of 0 and 1, all single-coordinate deviations of valid quadruples) against the three conditions evaluated in math/big",
  "Accept iff Z != 0 and both identities hold; accepted point equals (X/Z, Y/Z); export/re-import of every operation-produced representation.",
  "math/big", "3 C13"),
 "C14": (MC, "lattice",
  "complete enumeration of (setter, input class, prior receiver state) cells over the invalid-input alphabets, executing the real setters and comparing receiver memory before/after",
  "All seven fallible setters, every wrong length 0..130, boundary balls, off-curve encodings and invalid coordinate quadruples (every limb form of Z=0), each with the receiver previously zero-valued, canonical, or in a non-trivial representation; nil+error, receiver untouched (raw and observable), input untouched to cap; success returns the receiver.",
  "math/big decides validity", "3 C14"),
 "C15": (MC, "lattice",
  "complete enumeration of the finite misuse matrix: every exported Point operation x every Point-typed input position x ways of producing a zero value x other-argument values; recover() as oracle",
  "Every input position of every operation (incl. each index of the points slice for n=1..3) is made zero-valued in five different ways with every assignment of the other-argument alphabet (all of E[8] - every point with a zero coordinate - plus B and a mixed point, canonical and projective) -> must panic; receiver-only zero values must not panic; all (len scalars, len points) in {0..4}^2 x every assignment of {generic, 0, 1, l-1} to the scalar slots panic iff the lengths differ. The operation table is cross-checked against reflection.",
  "recover() observes panics; the operation table lists today's exported methods (new ones are reported as uncovered)", "3 C15"),
 "C18": (MC, "sched",
  "stateless model checking of the implementation: depth-first exploration of thread schedules under a hand-written controlled scheduler - all schedules up to a preemption bound for ten closed harnesses, and ALL interleavings (no bound, pruning on complete state keys) for the table-construction harnesses - with vector-clock happens-before race detection on every explored schedule; sources instrumented at check time and injected with go build -overlay",
  "Ten closed harnesses (2-4 threads, cold start restored from a generated snapshot of all package-level variables) are run under every schedule with at most 2 (quick) / 3-4 (thorough) preemptions, and the table-construction harnesses under every interleaving whatsoever (state-key pruning: scheduler state, vector clocks, full package memory, per-thread observation chains): simultaneous first use of either or both lazily built tables, cold and warm paths interleaved, shared read-only arguments. sync.Once is replaced by a shim following the standard library's structure whose every step is a scheduling point; mentions of mutable package-level variables (directly or through local aliases, classified by an interprocedural may-write analysis recomputed from the tree) are scheduling points and race-checked. On every schedule: results equal the sequential ones, no race, no deadlock, no pooled object held by two threads, each table written and each one-time initialisation function run exactly as often as sequentially, shared arguments untouched. A sequential enumeration checks that read-only methods never write their receiver. A free-running -race pass in cold processes is a supporting (sampling) extra.",
  "sequential consistency + happens-before approximates the Go memory model; scheduling granularity = synchronisation operations and accesses to package-level variables (directly or through analysed aliases); heap objects shared by other routes are covered by the value oracle, the pool/ownership faults and the sampled -race pass only; 2-4 threads", "3 C18"),
 "C19": (MC, "opseq(replay)",
  "stateless exhaustive exploration of all call/scribble/operation sequences up to a depth bound, each replayed from fresh values in isolated processes; invariants (memory disjointness, unchanged sources and earlier results, constant probe battery) evaluated after every step",
  "All sequences to depth 3 (quick) / 4 (thorough) over 20 events: 10 constructor/accessor calls, 6 scribbles over previously returned values (exported setters, zeroing, raw bytes up to cap), 4 heavy operations. After every step: sources bit-identical, earlier results unchanged, new results equal the model and occupy fresh memory, and a 70-call probe battery on fixed arguments (receivers with different histories included) is byte-identical. Sharded over 16 processes so that package state is never shared between explorers. Longer histories: every byte-input setter fed 20 values through one reused caller buffer (two passes), and 40 (thorough 72) pairwise distinct points pushed through each of 13 operations with every earlier point asked again after each new one, plus multi-scalar calls over all earlier points and one new point; all answers compared with the model.",
  "package state is observed behaviourally (probe battery) and through pointer ranges, not through a snapshot of package variables", "3 C19"),
 "C20": (EX, "lattice+two-build",
  "exhaustive enumeration of the corner lattice of the closed box for the dispatched vs portable multiply/square in one build, plus the quick enumerations of twelve other properties executed under both build configurations with digest comparison; dispatch established from the binaries",
  "All 1024^2 (quick 243^2) lattice pairs and all L(K7) squares: assembly and portable results both equal math/big and both stay within the Multiply representation bound; the whole-library enumerations of C01,C02,C04-C10,C13,C16,C17 are re-run by a -tags purego binary built from the same tree, must be violation-free and must produce the same order-independent digest of value observations as the default build; nm/objdump confirm (by ABI, not by name) that the default build contains the MULQ assembly routines and the purego build none; otherwise the run is marked not exhaustive.",
  "math/big; lattice corners stand for the box; the two binaries are built from the same tree by ./check", "3 C20"),
 "C16": (EX, "lattice", "exhaustive enumeration of (u,v) grids and of all pairs of field-alphabet forms against an Euler-criterion/ModSqrt oracle",
  "All (u,v) in [0,256)^2, all ordered pairs of forms of alphabet F, lattice corners, with the receiver aliased to u, to v, to neither, and u,v the same pointer; all four contract classes counted.",
  "math/big", "3 C16"),
 "C17": (EX, "lattice", "exhaustive enumeration of (point, representation, producer) triples against u=(1+y)/(1-y) in math/big, plus differential comparison with crypto/ecdh X25519",
  "Every alphabet point (identity, (0,-1), all torsion) in 24 produced and 62 sparse-Z representations; two-step sequences u(P);u(Q);u(P) over representations sharing stored coordinates; P and -P agree; X25519 public keys for a structured key alphabet agree with crypto/ecdh.",
  "math/big; crypto/ecdh", "3 C17"),
}

NOT_YET = {}

def main():
    ids = [json.loads(l)["id"] for l in open(os.path.join(V, "properties.jsonl"))]
    checks = []
    for i in ids:
        if i not in CHECKS:
            continue
        lvl, eng, tech, text, note, ref = CHECKS[i]
        checks.append({
            "property_id": i,
            "quick_cmd": "./check %s quick" % i,
            "thorough_cmd": "./check %s thorough" % i,
            "evidence_file": "evidence/%s.json" % i,
            "replay_cmd_template": "./check replay {path}",
            "engine": eng,
            "level_claimed": {"category": lvl, "text": text, "design_ref": "DESIGN.md section " + ref},
            "level_note": note,
            "technique": tech,
        })
    na = [{"property_id": i, "reason": NOT_YET[i]} for i in ids if i not in CHECKS]
    m = {
        "version": 1,
        "setup_cmd": "./setup.sh",
        "hooks": {
            "guard": "verif",
            "enable": "nothing is committed to /repo for instrumentation: ./check generates in-package shim files (//go:build verif) and instrumented copies at check time and injects them with `go build -overlay ... -tags verif`",
            "baseline_off_cmd": "cd /repo && go test -vet=off -count=1 ./...",
            "source_commits": [],
            "add_only": True,
        },
        "engines": [
            {"name": "ref", "path": "harness/ref", "serves_properties": ids, "kind_free_text": "math/big reference model of GF(p), Z/l and the curve, self-tested at start"},
            {"name": "alpha", "path": "harness/alpha", "serves_properties": ids, "kind_free_text": "structured finite alphabets (boundary values, limb corner lattices, torsion/mixed points, representations)"},
            {"name": "core", "path": "harness/core", "serves_properties": ids, "kind_free_text": "exhaustive parallel enumerator, explicit-state BFS register machine (opseq), replay files, 5x reproducibility guard, evidence"},
            {"name": "sched", "path": "harness/cmd/schedcheck + harness/_virt/vsched,vsync + harness/cmd/instr", "serves_properties": ["C18"], "kind_free_text": "controlled cooperative scheduler, iterative preemption-bounded DFS over schedules, vector-clock race check, cold-state snapshot/restore, source instrumenter"},
            {"name": "limbmodel", "path": "harness/limbmodel", "serves_properties": ["C09", "C10", "C20"], "kind_free_text": "abstract limb-bound transition system iterated to a fixpoint; conformance by replaying corner vectors on the real code"},
        ],
        "checks": checks,
        "not_applicable": na,
        "notes": "All commands honour VERIF_REPO (default /repo) and rebuild the harness from that tree on every call. Exit 2 = machinery error (never a VIOLATION line).",
    }
    json.dump(m, open(os.path.join(V, "MANIFEST.json"), "w"), indent=1)
    print("manifest: %d checks, %d not claimed" % (len(checks), len(na)))

main()
