// schedcheck decides C18 by stateless depth-first exploration of the schedules
// of small concurrent harnesses over the real (instrumented) library under a
// controlled scheduler. It is built by ./check with the sched-mode overlay
// (instrumented sources + virtual vsched/vsync packages).
package main

import (
	"bytes"
	"crypto/sha256"
	"encoding/json"
	"fmt"
	"math/big"
	"os"
	"os/exec"
	"sort"
	"strings"
	"time"

	"filippo.io/edwards25519"
	"filippo.io/edwards25519/field"
	"filippo.io/edwards25519/vsched"
	"filippo.io/edwards25519/vsync"
	"verif/harness/alpha"
	"verif/harness/checks"
	"verif/harness/core"
	"verif/harness/hmain"
	"verif/harness/ref"
)

func main() {
	// cold snapshot: taken before any library function has run
	field.VerifSnapshot()
	edwards25519.VerifSnapshot()
	vsync.SnapshotRegistered()
	checks.Registry["C18"] = struct {
		Level string
		Run   func(ctx *core.Ctx)
	}{"model_checking", runC18}
	hmain.Main()
}

// restoreShared rebuilds the shared arguments after the library damaged them
// (so that later schedules start from the intended values).
func restoreShared() { setupValues() }

func restoreCold() {
	field.VerifRestore()
	edwards25519.VerifRestore()
	vsync.ResetRegistered()
}

func globalsHash() [32]byte {
	g := edwards25519.VerifGlobals()
	for k, v := range field.VerifGlobals() {
		g[k] = v
	}
	return vsched.HashGlobals(g)
}

// ---- scenarios ----

type call struct {
	name string
	run  func() []byte
}

type scenario struct {
	name    string
	threads [][]call
	// quiet: on a correct tree the threads share nothing, so a single outcome
	// is expected; the scenario exists to expose state a change starts sharing
	quiet bool
}

var (
	k1, k2, ka, kb *edwards25519.Scalar
	ptA, ptA2      *edwards25519.Point
	ptAm           ref.Pt
	shared         struct {
		s  *edwards25519.Scalar
		p  *edwards25519.Point
		ss []*edwards25519.Scalar // shared slices: a zero scalar that is not the last term
		ps []*edwards25519.Point
	}
	sharedFingerprint string
)

func setupValues() {
	mk := func(v *big.Int) *edwards25519.Scalar {
		b := ref.LE32(ref.SRed(v))
		s, err := new(edwards25519.Scalar).SetCanonicalBytes(b[:])
		if err != nil {
			panic(err)
		}
		return s
	}
	k1 = mk(alpha.GenericScalar)
	k2 = mk(new(big.Int).Sub(ref.L, big.NewInt(2)))
	ka = mk(big.NewInt(0x1234567))
	kb = mk(new(big.Int).Lsh(alpha.GenericScalar, 1))
	ptAm = ref.Add(ref.Torsion()[1], ref.Mul(big.NewInt(5), ref.Base()))
	ptA = alpha.MakePoint(ptAm, 6)
	ptA2 = alpha.MakePoint(ref.Add(ref.Torsion()[3], ref.Mul(big.NewInt(11), ref.Base())), 3)
	shared.s = mk(big.NewInt(77))
	shared.p = alpha.MakePoint(ref.Mul(big.NewInt(9), ref.Base()), 3)
	shared.ss = []*edwards25519.Scalar{mk(big.NewInt(5)), edwards25519.NewScalar(), mk(big.NewInt(6)), mk(alpha.GenericScalar)}
	shared.ps = []*edwards25519.Point{alpha.MakePoint(ref.Mul(big.NewInt(2), ref.Base()), 6), alpha.MakePoint(ref.Torsion()[1], 3), alpha.MakePoint(ref.Mul(big.NewInt(3), ref.Base()), 0), shared.p}
	sharedFingerprint = fingerprintShared()
}

// fingerprintShared: the complete memory image of every value the scenarios
// share between threads (they only ever pass them as read-only arguments).
func fingerprintShared() string {
	var b strings.Builder
	b.WriteString(string(alpha.PointRaw(shared.p)))
	fmt.Fprint(&b, alpha.ScalarRaw(shared.s))
	for i := range shared.ss {
		fmt.Fprintf(&b, "|%p", shared.ss[i])
		fmt.Fprint(&b, alpha.ScalarRaw(shared.ss[i]))
		fmt.Fprintf(&b, "|%p", shared.ps[i])
		b.WriteString(string(alpha.PointRaw(shared.ps[i])))
	}
	fmt.Fprint(&b, len(shared.ss), cap(shared.ss), len(shared.ps), cap(shared.ps))
	for _, p := range []*edwards25519.Point{ptA, ptA2} {
		b.WriteString(string(alpha.PointRaw(p)))
	}
	for _, k := range []*edwards25519.Scalar{k1, k2, ka, kb} {
		fmt.Fprint(&b, alpha.ScalarRaw(k))
	}
	return b.String()
}

func sbm(k *edwards25519.Scalar) call {
	return call{"ScalarBaseMult", func() []byte { return new(edwards25519.Point).ScalarBaseMult(k).Bytes() }}
}
func vtd(a *edwards25519.Scalar, A *edwards25519.Point, b *edwards25519.Scalar) call {
	return call{"VarTimeDoubleScalarBaseMult", func() []byte { return new(edwards25519.Point).VarTimeDoubleScalarBaseMult(a, A, b).Bytes() }}
}

func vsm(k *edwards25519.Scalar, q *edwards25519.Point) call {
	return call{"ScalarMult", func() []byte { return new(edwards25519.Point).ScalarMult(k, q).Bytes() }}
}
func msm(a *edwards25519.Scalar, p *edwards25519.Point, b *edwards25519.Scalar, q *edwards25519.Point) call {
	return call{"MultiScalarMult", func() []byte {
		return new(edwards25519.Point).MultiScalarMult([]*edwards25519.Scalar{a, b}, []*edwards25519.Point{p, q}).Bytes()
	}}
}
func vtmsm(a *edwards25519.Scalar, p *edwards25519.Point, b *edwards25519.Scalar, q *edwards25519.Point) call {
	return call{"VarTimeMultiScalarMult", func() []byte {
		return new(edwards25519.Point).VarTimeMultiScalarMult([]*edwards25519.Scalar{a, b}, []*edwards25519.Point{p, q}).Bytes()
	}}
}

// opBattery: every operation class of the three types on the thread's own
// values (nothing is shared between threads on a correct tree).
func opBattery(seed int64) []call {
	enc := func(p ref.Pt) []byte { e := ref.Encode(p); return e[:] }
	mkS := func(v *big.Int) *edwards25519.Scalar {
		b := ref.LE32(ref.SRed(v))
		s, _ := new(edwards25519.Scalar).SetCanonicalBytes(b[:])
		return s
	}
	pm := ref.Add(ref.Torsion()[int(seed)%8], ref.Mul(big.NewInt(100+seed), ref.Base()))
	qm := ref.Mul(big.NewInt(7+seed), ref.Base())
	pe, qe := enc(pm), enc(qm)
	sa := new(big.Int).Add(alpha.GenericScalar, big.NewInt(seed))
	fa := new(big.Int).Add(alpha.FieldValues(true)[13], big.NewInt(seed))
	return []call{
		{"decode/encode", func() []byte {
			p, err := new(edwards25519.Point).SetBytes(pe)
			if err != nil {
				return []byte("decode error: " + err.Error())
			}
			q, _ := new(edwards25519.Point).SetBytes(qe)
			out := append(p.Bytes(), p.BytesMontgomery()...)
			out = append(out, new(edwards25519.Point).Add(p, q).Bytes()...)
			out = append(out, new(edwards25519.Point).Subtract(p, q).Bytes()...)
			out = append(out, new(edwards25519.Point).Negate(p).Bytes()...)
			out = append(out, new(edwards25519.Point).MultByCofactor(p).Bytes()...)
			out = append(out, byte(p.Equal(q)))
			X, Y, Z, T := p.ExtendedCoordinates()
			if r, err := new(edwards25519.Point).SetExtendedCoordinates(X, Y, Z, T); err == nil {
				out = append(out, r.Bytes()...)
			}
			return out
		}},
		{"scalar ops", func() []byte {
			a, b := mkS(sa), mkS(new(big.Int).Lsh(sa, 3))
			out := new(edwards25519.Scalar).Add(a, b).Bytes()
			out = append(out, new(edwards25519.Scalar).Multiply(a, b).Bytes()...)
			out = append(out, new(edwards25519.Scalar).MultiplyAdd(a, b, a).Bytes()...)
			out = append(out, new(edwards25519.Scalar).Invert(a).Bytes()...)
			out = append(out, new(edwards25519.Scalar).Negate(a).Bytes()...)
			w := append(a.Bytes(), b.Bytes()...)
			if s, err := new(edwards25519.Scalar).SetUniformBytes(w); err == nil {
				out = append(out, s.Bytes()...)
			}
			if s, err := new(edwards25519.Scalar).SetBytesWithClamping(w[:32]); err == nil {
				out = append(out, s.Bytes()...)
			}
			out = append(out, new(edwards25519.Scalar).Subtract(a, b).Bytes()...)
			out = append(out, new(edwards25519.Scalar).Set(a).Bytes()...)
			if s, err := new(edwards25519.Scalar).SetCanonicalBytes(b.Bytes()); err == nil {
				out = append(out, s.Bytes()...)
			}
			if _, err := new(edwards25519.Scalar).SetCanonicalBytes(bytes.Repeat([]byte{0xff}, 32)); err == nil {
				out = append(out, 1)
			}
			return append(out, byte(a.Equal(b)))
		}},
		{"field ops", func() []byte {
			x, y := alpha.ElemCanon(fa), alpha.ElemCanon(new(big.Int).Lsh(fa, 1))
			out := new(field.Element).Multiply(&x, &y).Bytes()
			out = append(out, new(field.Element).Add(&x, &y).Bytes()...)
			out = append(out, new(field.Element).Subtract(&x, &y).Bytes()...)
			out = append(out, new(field.Element).Square(&x).Bytes()...)
			out = append(out, new(field.Element).Invert(&x).Bytes()...)
			out = append(out, new(field.Element).Pow22523(&x).Bytes()...)
			out = append(out, new(field.Element).Absolute(&x).Bytes()...)
			out = append(out, new(field.Element).Mult32(&x, 121666).Bytes()...)
			r, was := new(field.Element).SqrtRatio(&x, &y)
			out = append(out, append(r.Bytes(), byte(was), byte(x.Equal(&y)), byte(x.IsNegative()))...)
			if v, err := new(field.Element).SetWideBytes(append(x.Bytes(), y.Bytes()...)); err == nil {
				out = append(out, v.Bytes()...)
			}
			out = append(out, new(field.Element).Negate(&x).Bytes()...)
			out = append(out, new(field.Element).Select(&x, &y, 1).Bytes()...)
			sx, sy := x, y
			sx.Swap(&sy, 1)
			out = append(out, append(sx.Bytes(), sy.Bytes()...)...)
			out = append(out, new(field.Element).Set(&x).Bytes()...)
			out = append(out, new(field.Element).Zero().Bytes()...)
			out = append(out, new(field.Element).One().Bytes()...)
			if v, err := new(field.Element).SetBytes(y.Bytes()); err == nil {
				out = append(out, v.Bytes()...)
			}
			return out
		}},
		{"scalar mults on own point", func() []byte {
			p, _ := new(edwards25519.Point).SetBytes(pe)
			a := mkS(sa)
			out := new(edwards25519.Point).ScalarMult(a, p).Bytes()
			out = append(out, new(edwards25519.Point).VarTimeMultiScalarMult([]*edwards25519.Scalar{a, a}, []*edwards25519.Point{p, p}).Bytes()...)
			out = append(out, new(edwards25519.Point).MultiScalarMult([]*edwards25519.Scalar{a}, []*edwards25519.Point{p}).Bytes()...)
			out = append(out, new(edwards25519.Point).VarTimeDoubleScalarBaseMult(a, p, a).Bytes()...)
			out = append(out, new(edwards25519.Point).Set(p).Bytes()...)
			out = append(out, edwards25519.NewIdentityPoint().Bytes()...)
			out = append(out, edwards25519.NewGeneratorPoint().Bytes()...)
			out = append(out, edwards25519.NewScalar().Bytes()...)
			return out
		}},
	}
}

// bigMulti: a multi-scalar call with more terms (11) than any plausible
// fixed-size scratch, so that "oversized" paths of pooled buffers are taken.
func bigMulti(constTime bool) call {
	name := "VarTimeMultiScalarMult(11 terms)"
	if constTime {
		name = "MultiScalarMult(11 terms)"
	}
	return call{name, func() []byte {
		var sc []*edwards25519.Scalar
		var ps []*edwards25519.Point
		for i := 0; i < 11; i++ {
			sc = append(sc, []*edwards25519.Scalar{ka, kb, k1}[i%3])
			ps = append(ps, []*edwards25519.Point{ptA, ptA2}[i%2])
		}
		if constTime {
			return new(edwards25519.Point).MultiScalarMult(sc, ps).Bytes()
		}
		return new(edwards25519.Point).VarTimeMultiScalarMult(sc, ps).Bytes()
	}}
}

func scenarios() []scenario {
	sharedReads := func() []call {
		return []call{
			{"ScalarMult(shared)", func() []byte { return new(edwards25519.Point).ScalarMult(shared.s, shared.p).Bytes() }},
			{"Add(shared)", func() []byte { return new(edwards25519.Point).Add(shared.p, shared.p).Bytes() }},
			{"MultiScalarMult(shared)", func() []byte {
				return new(edwards25519.Point).MultiScalarMult([]*edwards25519.Scalar{shared.s, shared.s}, []*edwards25519.Point{shared.p, shared.p}).Bytes()
			}},
			{"Bytes(shared)", func() []byte { return append(shared.p.Bytes(), shared.s.Bytes()...) }},
			{"VarTimeMultiScalarMult(shared slices)", func() []byte {
				return new(edwards25519.Point).VarTimeMultiScalarMult(shared.ss, shared.ps).Bytes()
			}},
			{"MultiScalarMult(shared slices)", func() []byte {
				return new(edwards25519.Point).MultiScalarMult(shared.ss, shared.ps).Bytes()
			}},
			{"ExtendedCoordinates(shared) then caller writes its copies", func() []byte {
				X, Y, Z, T := shared.p.ExtendedCoordinates()
				out := append(X.Bytes(), Z.Bytes()...)
				zi := new(field.Element).Invert(Z)
				X.Multiply(X, zi) // the caller owns what it was handed
				Y.Multiply(Y, zi)
				Z.One()
				T.Multiply(X, Y)
				return append(out, X.Bytes()...)
			}},
		}
	}
	return []scenario{
		{"S1 two cold ScalarBaseMult", [][]call{{sbm(k1)}, {sbm(k2)}}, false},
		{"S2 both tables, three threads", [][]call{{sbm(k1)}, {vtd(ka, ptA, kb)}, {sbm(k2)}}, false},
		{"S3 cold and warm paths", [][]call{{sbm(k1), sbm(k2)}, {vtd(ka, ptA, kb), sbm(k1)}}, false},
		{"S4 shared read-only arguments", [][]call{append(sharedReads(), sbm(k1)), append([]call{sbm(k2)}, sharedReads()...), {sbm(k1)}}, false},
		{"S5 two cold VarTimeDouble + base mult", [][]call{{vtd(ka, ptA, kb)}, {vtd(kb, ptA, ka), sbm(k2)}}, false},
		{"S6 different variable points per thread", [][]call{{vtd(ka, ptA, kb), vsm(k1, ptA)}, {vtd(kb, ptA2, ka), vsm(k2, ptA2)}}, false},
		{"S7 multi-scalar routines on different points", [][]call{{msm(ka, ptA, kb, ptA2), vtmsm(kb, ptA, ka, ptA2)}, {vtmsm(ka, ptA2, kb, ptA), msm(kb, ptA2, ka, ptA)}, {sbm(k1)}}, true},
		{"S8 every operation class on private values", [][]call{opBattery(1), opBattery(2), opBattery(3)}, true},
		{"S10 four threads, simultaneous first use of both tables", [][]call{{sbm(k1)}, {vtd(ka, ptA, kb)}, {sbm(k2)}, {vtd(kb, ptA2, ka)}}, false},
		{"S9 a large multi-scalar call, then concurrent small ones", [][]call{{bigMulti(false), vtmsm(ka, ptA, kb, ptA2)}, {vtmsm(kb, ptA2, ka, ptA), msm(ka, ptA2, kb, ptA)}, {bigMulti(true), msm(kb, ptA, ka, ptA2), vtmsm(ka, ptA, ka, ptA)}}, true},
	}
}

// ---- one execution ----

type result struct {
	outs     [][][]byte
	exec     *vsched.Exec
	globals  [32]byte
	diverged string
}

func runSchedule(sc *scenario, prefix []int, expect []vsched.PointInfo, logEvents bool) *result {
	return runScheduleOpt(sc, prefix, expect, logEvents, true)
}

func runScheduleOpt(sc *scenario, prefix []int, expect []vsched.PointInfo, logEvents bool, cold bool) *result {
	return runScheduleFull(sc, prefix, expect, logEvents, cold, false)
}

func runScheduleFull(sc *scenario, prefix []int, expect []vsched.PointInfo, logEvents bool, cold bool, keyed bool) *result {
	if cold {
		restoreCold()
	}
	if fingerprintShared() != sharedFingerprint {
		restoreShared() // a previous execution's library calls damaged them (reported there)
	}
	r := &result{outs: make([][][]byte, len(sc.threads))}
	var bodies []func()
	for ti, calls := range sc.threads {
		ti, calls := ti, calls
		r.outs[ti] = make([][]byte, len(calls))
		bodies = append(bodies, func() {
			for ci, c := range calls {
				r.outs[ti][ci] = c.run()
			}
		})
	}
	idx := 0
	choose := func(p vsched.PointInfo) int {
		i := idx
		idx++
		if i < len(prefix) {
			if expect != nil && i < len(expect) {
				e := expect[i]
				if e.Running != p.Running || e.Kind != p.Kind || e.Obj != p.Obj || len(e.Enabled) != len(p.Enabled) {
					r.diverged = fmt.Sprintf("point %d: expected T%d %s %s (%d enabled), got T%d %s %s (%d enabled)", i, e.Running, e.Kind, e.Obj, len(e.Enabled), p.Running, p.Kind, p.Obj, len(p.Enabled))
				}
			}
			if prefix[i] >= len(p.Enabled) {
				r.diverged = fmt.Sprintf("point %d: recorded choice %d but only %d threads enabled", i, prefix[i], len(p.Enabled))
				return 0
			}
			return prefix[i]
		}
		return 0
	}
	if keyed {
		// A thread's private state is a function of what it has observed:
		// the contents of each package-level variable at the moment it
		// accessed it, and the values synchronisation operations returned.
		chains := make([][32]byte, len(sc.threads)+1)
		globals := edwards25519.VerifGlobals()
		for k, v := range field.VerifGlobals() {
			globals[k] = v
		}
		lastVer, lastFull := -1, [32]byte{}
		full := func(e *vsched.Exec) [32]byte {
			if e.Version != lastVer {
				lastFull = vsched.HashGlobalsFull(globals)
				lastVer = e.Version
			}
			return lastFull
		}
		onObserve := func(e *vsched.Exec, id int, kind, name string, val uint64) {
			for id >= len(chains) {
				chains = append(chains, [32]byte{})
			}
			h := sha256.New()
			h.Write(chains[id][:])
			h.Write([]byte(kind))
			if kind == "var" {
				p, ok := globals[name]
				if !ok {
					// a field of a struct variable ("pkg.G.f"): hash the variable
					if i := strings.LastIndex(name, "."); i > strings.Index(name, ".") {
						p, ok = globals[name[:i]]
					}
				}
				if ok {
					g := vsched.HashGlobalsFull(map[string]any{name: p})
					h.Write(g[:])
				} else {
					g := full(e)
					h.Write(g[:])
				}
			} else {
				var b [8]byte
				for i := range b {
					b[i] = byte(val >> (8 * i))
				}
				h.Write(b[:])
			}
			for id >= len(chains) {
				chains = append(chains, [32]byte{}) // a goroutine started by the library
			}
			copy(chains[id][:], h.Sum(nil))
		}
		keyFn := func(e *vsched.Exec) [16]byte {
			h := sha256.New()
			h.Write(e.CoreState())
			g := full(e)
			h.Write(g[:])
			h.Write(vsync.RegisteredState())
			for _, c := range chains {
				h.Write(c[:])
			}
			var k [16]byte
			copy(k[:], h.Sum(nil))
			return k
		}
		r.exec = watchdog(func() *vsched.Exec { return vsched.RunKeyed(bodies, choose, logEvents, keyFn, onObserve) })
	} else {
		r.exec = watchdog(func() *vsched.Exec { return vsched.Run(bodies, choose, logEvents) })
	}
	r.globals = globalsHash()
	return r
}

// watchdog: one controlled execution takes milliseconds. If it does not come
// back, a thread of the library is blocked where the scheduler cannot see it
// (a channel, a real lock): exit with the code that makes ./check fall back to
// the uncontrolled build instead of hanging or reporting anything.
func watchdog(run func() *vsched.Exec) *vsched.Exec {
	done := make(chan *vsched.Exec, 1)
	go func() { done <- run() }()
	select {
	case e := <-done:
		return e
	case <-time.After(5 * time.Minute):
		fmt.Fprintln(os.Stderr, "schedcheck: a controlled execution did not finish within 5 minutes: a library thread is blocked outside the scheduler's control")
		os.Exit(3)
	}
	return nil
}

type seqRef struct {
	outs   [][][]byte
	counts map[string][2]int
	calls  []int
	// effective[i]: invocations of function i that did some work in the
	// sequential cold execution
	effective []int
	// initOnly[i]: function i runs in a cold sequential execution but not at
	// all when the same calls are repeated warm: one-time initialisation work
	// (construction of lazily built package-level tables). Only for these is
	// the execution count required to be schedule independent - a correctly
	// locked cache may legitimately rebuild more or less often depending on
	// the interleaving.
	initOnly []bool
	globals  [32]byte
	// unrestorable: a second cold run of the same calls behaved differently
	unrestorable bool
}

// sequential reference: every thread's calls run one thread after the other
// (the zero-deviation schedule), outputs additionally compared with the model.
func sequentialRef(sc *scenario) *seqRef {
	vsched.InitOnly = nil
	r := runSchedule(sc, nil, nil, false)
	seqDamagedShared = fingerprintShared() != sharedFingerprint
	// Restore self-check: the zero-deviation schedule, run again after
	// restoring the cold snapshot, must give identical observations. If not,
	// this tree keeps state the generated snapshot cannot reach (e.g. captured
	// by a closure): every later comparison would be meaningless, so stop as a
	// machinery error instead of reporting a bogus violation.
	r2 := runSchedule(sc, nil, nil, false)
	if fmt.Sprint(r.outs, r.exec.Counts, r.exec.Choices, r.exec.Deadlock) != fmt.Sprint(r2.outs, r2.exec.Counts, r2.exec.Choices, r2.exec.Deadlock) {
		// This tree keeps state the snapshot cannot reach (captured by a
		// closure, say). Exploring from a state that is not cold would make
		// every comparison meaningless, so this scenario is not explored -
		// said in the evidence - instead of reporting anything.
		return &seqRef{outs: r.outs, counts: r.exec.Counts, calls: r.exec.Calls, globals: r.globals, unrestorable: true}
	}
	if r.exec.Deadlock || r.exec.Panicked() != nil || len(r.exec.Races) > 0 {
		return &seqRef{outs: r.outs, counts: r.exec.Counts, calls: r.exec.Calls, globals: r.globals}
	}
	// warm repetition: same calls, package state left as the cold run left it
	warm := runScheduleOpt(sc, nil, nil, false, false)
	initOnly := make([]bool, len(r.exec.Calls))
	for i, n := range r.exec.Calls {
		wn := 0
		if i < len(warm.exec.Calls) {
			wn = warm.exec.Calls[i]
		}
		initOnly[i] = n > 0 && wn == 0
	}
	// third cold run, now with the init-only set known: how many invocations
	// of each init-only function did some work (see vsched.Enter)
	vsched.InitOnly = initOnly
	r3 := runSchedule(sc, nil, nil, false)
	return &seqRef{outs: r.outs, counts: r.exec.Counts, calls: r.exec.Calls, effective: r3.exec.Effective, initOnly: initOnly, globals: r.globals}
}

func modelOuts(sc *scenario) map[string][]byte {
	enc := func(p ref.Pt) []byte { e := ref.Encode(p); return e[:] }
	B := ref.Base()
	m := map[string][]byte{}
	sv := func(s *edwards25519.Scalar) *big.Int { return ref.FromLE(s.Bytes()) }
	m["sbm-k1"] = enc(ref.Mul(sv(k1), B))
	m["sbm-k2"] = enc(ref.Mul(sv(k2), B))
	m["vtd-ab"] = enc(ref.Add(ref.Mul(sv(ka), ptAm), ref.Mul(sv(kb), B)))
	return m
}

type schedCase struct {
	Scenario string `json:"scenario"`
	Choices  []int  `json:"choices"`
}

func checkExecution(sc *scenario, seq *seqRef, r *result) string {
	e := r.exec
	if r.diverged != "" {
		core.InternalError("schedule replay diverged (uncontrolled nondeterminism): %s", r.diverged)
	}
	if e.Deadlock {
		return "deadlock: no thread enabled although not all finished"
	}
	if p := e.Panicked(); p != nil {
		return fmt.Sprint(p)
	}
	if len(e.Races) > 0 {
		return "data race (happens-before): " + e.Races[0]
	}
	if len(e.Faults) > 0 {
		return e.Faults[0]
	}
	if fp := fingerprintShared(); fp != sharedFingerprint {
		restoreShared()
		return "a value the threads only passed as a read-only argument (shared point, scalar, or the scalar/point slices and their elements) was modified by the library"
	}
	for ti := range seq.outs {
		for ci := range seq.outs[ti] {
			if !bytes.Equal(seq.outs[ti][ci], r.outs[ti][ci]) {
				return fmt.Sprintf("thread %d call %d (%s) returned %x, sequentially %x", ti+1, ci, sc.threads[ti][ci].name, r.outs[ti][ci], seq.outs[ti][ci])
			}
		}
	}
	var names []string
	for n := range seq.counts {
		names = append(names, n)
	}
	for n := range e.Counts {
		if _, ok := seq.counts[n]; !ok {
			names = append(names, n)
		}
	}
	sort.Strings(names)
	for _, n := range names {
		if e.Counts[n][1] != seq.counts[n][1] {
			return fmt.Sprintf("%s was written %d times, %d times in the sequential execution (constructed more than once?)", n, e.Counts[n][1], seq.counts[n][1])
		}
	}
	// per-function execution counts: the same calls on the same arguments do
	// the same work under every schedule unless something is constructed
	// twice (or skipped) because of the interleaving
	n := len(seq.calls)
	if len(e.Calls) > n {
		n = len(e.Calls)
	}
	at := func(a []int, i int) int {
		if i < len(a) {
			return a[i]
		}
		return 0
	}
	// Counted are the invocations that did some work (entered a function that
	// is not itself init-only, or wrote a package-level variable): the losing
	// side of a double-checked initialisation - lock, look, leave - runs a
	// schedule-dependent number of times without constructing anything.
	for i := 0; i < n; i++ {
		if i < len(seq.initOnly) && seq.initOnly[i] && at(e.Effective, i) != at(seq.effective, i) {
			return fmt.Sprintf("one-time initialisation function %s (never runs once the process is warm) did its work %d times (%d invocations), %d times in the sequential cold execution of the same calls: lazily built state was constructed more than once (or partially) under this schedule", funcName(i), at(e.Effective, i), at(e.Calls, i), at(seq.effective, i))
		}
	}
	// The final package state is NOT required to equal the sequential one: a
	// correctly synchronised cache may legitimately end up holding whatever
	// was used last. It is recorded for the evidence only.
	if r.globals != seq.globals {
		stateDiffers++
	}
	return ""
}

var stateDiffers int64
var singleOutcome int

// seqDamagedShared: the sequential reference execution itself modified a
// value that was only ever passed as a read-only argument.
var seqDamagedShared bool

var funcNames []string

func funcName(i int) string {
	if funcNames == nil {
		funcNames = []string{}
		if b, err := os.ReadFile(os.Getenv("VERIF_INSTR_REPORT")); err == nil {
			var r struct {
				Functions []string `json:"functions"`
			}
			json.Unmarshal(b, &r)
			funcNames = r.Functions
		}
	}
	if i < len(funcNames) {
		return funcNames[i]
	}
	return fmt.Sprintf("#%d", i)
}

func preemptions(points []vsched.PointInfo, choices []int, upto int) int {
	n := 0
	for j := 0; j < upto; j++ {
		if points[j].RunningEnabled && choices[j] != 0 {
			n++
		}
	}
	return n
}

type explorer struct {
	sc        *scenario
	seq       *seqRef
	bound     int
	schedules int64
	byPreempt map[int]int64
	maxPoints int
	outcomes  map[string]int64 // who did the construction: first writer per variable
	ctx       *core.Ctx
	fails     int
	limit     int64
	capped    bool
	unbounded bool              // no preemption bound; prune on complete state keys
	visited   map[[16]byte]bool // states whose continuations have been explored (unbounded mode)
	pruned    int64
	shardW    int // this worker
	shardK    int // number of workers (0/1: no sharding)
	topOrd    int
	viol      []shardViol
}

type shardViol struct {
	Case schedCase `json:"case"`
	Msg  string    `json:"msg"`
}

type shardOut struct {
	Schedules int64            `json:"schedules"`
	ByPreempt map[int]int64    `json:"by_preempt"`
	MaxPoints int              `json:"max_points"`
	Outcomes  map[string]int64 `json:"outcomes"`
	Viol      []shardViol      `json:"viol"`
	Fails     int              `json:"fails"`
	Capped    bool             `json:"capped"`
	States    int64            `json:"states"`
	Pruned    int64            `json:"pruned"`
}

func (x *explorer) explore(prefix []int, expect []vsched.PointInfo) {
	if x.capped {
		return
	}
	if x.limit > 0 && x.schedules >= x.limit || x.ctx.Expired() {
		x.capped = true
		return
	}
	if len(prefix) == 0 && x.shardK > 1 && x.shardW != 0 {
		// only worker 0 accounts for the root execution; the others still
		// need it to enumerate the top-level alternatives
		r := runSchedule(x.sc, prefix, expect, false)
		if r.diverged != "" {
			core.InternalError("schedule replay diverged: %s", r.diverged)
		}
		x.expandFrom(r.exec, prefix)
		return
	}
	r := runScheduleFull(x.sc, prefix, expect, false, true, x.unbounded)
	x.schedules++
	if x.unbounded && os.Getenv("VERIF_C18_UNBOUNDED_DEBUG") != "" && x.schedules%200 == 0 {
		fmt.Printf("  .. schedules=%d states=%d pruned=%d prefixlen=%d points=%d\n", x.schedules, len(x.visited), x.pruned, len(prefix), len(r.exec.Points))
	}
	e := r.exec
	x.byPreempt[preemptions(e.Points, e.Choices, len(e.Choices))]++
	if len(e.Points) > x.maxPoints {
		x.maxPoints = len(e.Points)
	}
	x.outcomes[outcomeKey(e)]++
	if msg := checkExecution(x.sc, x.seq, r); msg != "" {
		x.fails++
		if x.fails >= 40 {
			x.capped = true // enough counterexamples; the run fails anyway
		}
		if x.fails <= 20 {
			x.viol = append(x.viol, shardViol{schedCase{x.sc.name, append([]int{}, e.Choices...)}, x.sc.name + ": " + msg})
		}
		return
	}
	x.expandFrom(e, prefix)
}

func (x *explorer) expandFrom(e *vsched.Exec, prefix []int) {
	for i := len(prefix); i < len(e.Choices); i++ {
		p := e.Points[i]
		if x.unbounded {
			// every continuation of an already visited state has been (or is
			// being) explored from its first visit
			if x.visited[e.Keys[i]] {
				x.pruned++
				break
			}
			x.visited[e.Keys[i]] = true
		} else {
			cost := preemptions(e.Points, e.Choices, i)
			if p.RunningEnabled {
				cost++
			}
			if cost > x.bound {
				continue
			}
		}
		for alt := 1; alt < len(p.Enabled); alt++ {
			if len(prefix) == 0 && x.shardK > 1 {
				ord := x.topOrd
				x.topOrd++
				if ord%x.shardK != x.shardW {
					continue
				}
			}
			np := append(append([]int{}, e.Choices[:i]...), alt)
			x.explore(np, e.Points[:i+1])
		}
	}
}

// outcomeKey: the order in which threads performed their first write to each
// mutable variable is not recorded by vsched; use the per-thread step counts
// (which thread did the long construction) as the observable outcome.
func outcomeKey(e *vsched.Exec) string { return fmt.Sprint(e.Steps()) }

func findScenario(name string) *scenario {
	for _, s := range scenarios() {
		if s.name == name {
			s := s
			return &s
		}
	}
	return nil
}

func init() {
	core.RegisterReplayer("C18/schedule", func(raw json.RawMessage) *core.Fail {
		var c schedCase
		if err := json.Unmarshal(raw, &c); err != nil {
			core.InternalError("%v", err)
		}
		setupValues()
		sc := findScenario(c.Scenario)
		if sc == nil {
			core.InternalError("unknown scenario %q", c.Scenario)
		}
		seq := sequentialRef(sc)
		// determinism guard: the same schedule twice must give identical observations
		r1 := runSchedule(sc, c.Choices, nil, true)
		r2 := runSchedule(sc, c.Choices, nil, true)
		if fmt.Sprint(r1.exec.Choices, r1.outs, r1.exec.Trace) != fmt.Sprint(r2.exec.Choices, r2.outs, r2.exec.Trace) {
			core.InternalError("replaying one schedule twice gave different observations")
		}
		if msg := checkExecution(sc, seq, r1); msg != "" {
			tr := r1.exec.Trace
			if len(tr) > 60 {
				tr = tr[len(tr)-60:]
			}
			return core.Failf("%s: %s\nschedule (last events): %s", c.Scenario, msg, strings.Join(tr, "; "))
		}
		return nil
	})
	core.RegisterReplayer("C18/race-pass", func(raw json.RawMessage) *core.Fail {
		return racePass(2, 8)
	})
}

// racePass runs the free-running -race binary (built by ./check from the
// uninstrumented tree) in cold processes. Supporting pass: it samples.
func racePass(procs, goroutines int) *core.Fail {
	bin := os.Getenv("VERIF_RACE_BIN")
	if bin == "" {
		return nil
	}
	for i := 0; i < procs; i++ {
		cmd := exec.Command(bin, fmt.Sprint(goroutines), fmt.Sprint(i))
		cmd.Env = append(os.Environ(), "GORACE=halt_on_error=0 exitcode=66")
		out, err := cmd.CombinedOutput()
		if bytes.Contains(out, []byte("WARNING: DATA RACE")) {
			s := string(out)
			if len(s) > 3000 {
				s = s[:3000]
			}
			return core.Failf("Go race detector report in a free-running cold process (%d goroutines):\n%s", goroutines, s)
		}
		if bytes.Contains(out, []byte("MISMATCH")) {
			return core.Failf("free-running cold process: concurrent result differs from sequential: %s", string(out))
		}
		if err != nil {
			core.InternalError("race pass binary failed: %v\n%s", err, out)
		}
	}
	return nil
}

// ---- read-only methods must not write their receiver ----
//
// "Shared arguments are only read": goroutines that only call read-only
// methods on a shared value do not write it by contract, so a method that
// normalises or caches inside its receiver creates a race between them. The
// scheduler cannot see writes to caller-owned memory; this sequential
// enumeration can: the receiver (and argument) of every read-only method must
// be bit-identical afterwards, for every representation.

type roCase struct {
	Type   string      `json:"type"`
	Method string      `json:"method"`
	Limbs  alpha.Limbs `json:"limbs,omitempty"`
	Enc    core.Hex    `json:"enc,omitempty"`
	Form   int         `json:"form,omitempty"`
}

var subReadOnly = core.NewSub("C18/readonly-receiver", func(w *core.Worker, c roCase) *core.Fail {
	switch c.Type {
	case "Element":
		e := alpha.ElemFromLimbs(c.Limbs)
		o := alpha.ElemFromLimbs(c.Limbs)
		switch c.Method {
		case "Equal":
			e.Equal(&o)
		case "Bytes":
			e.Bytes()
		case "IsNegative":
			e.IsNegative()
		}
		if alpha.LimbsOf(&e) != c.Limbs || alpha.LimbsOf(&o) != c.Limbs {
			return core.Failf("field.Element.%s wrote to its receiver/argument: limbs %v became %v / %v (two goroutines reading one shared element would race)", c.Method, c.Limbs, alpha.LimbsOf(&e), alpha.LimbsOf(&o))
		}
	case "Scalar":
		sc, err := new(edwards25519.Scalar).SetCanonicalBytes(c.Enc)
		if err != nil {
			return nil
		}
		o := *sc
		raw := alpha.ScalarRaw(sc)
		switch c.Method {
		case "Equal":
			sc.Equal(&o)
		case "Bytes":
			sc.Bytes()
		}
		if alpha.ScalarRaw(sc) != raw || alpha.ScalarRaw(&o) != raw {
			return core.Failf("Scalar.%s wrote to its receiver/argument", c.Method)
		}
	case "Point":
		pt, ok := ref.Decode(c.Enc)
		if !ok {
			return nil
		}
		p := alpha.MakePoint(pt, c.Form)
		o := alpha.MakePoint(pt, (c.Form+3)%alpha.NumPointForms)
		rp, ro := alpha.PointRaw(p), alpha.PointRaw(o)
		switch c.Method {
		case "Equal":
			p.Equal(o)
		case "Bytes":
			p.Bytes()
		case "BytesMontgomery":
			p.BytesMontgomery()
		case "ExtendedCoordinates":
			p.ExtendedCoordinates()
		}
		if alpha.PointRaw(p) != rp || alpha.PointRaw(o) != ro {
			return core.Failf("Point.%s wrote to its receiver/argument (point %s, form %d): two goroutines reading one shared point would race", c.Method, c.Enc, c.Form)
		}
	}
	w.Distinct("readonly-cases", []byte(c.Type+c.Method))
	return nil
})

func readOnlyCases() []roCase {
	var out []roCase
	for _, v := range alpha.FieldValues(false) {
		for _, e := range alpha.ElemForms(v) {
			for _, m := range []string{"Equal", "Bytes", "IsNegative"} {
				out = append(out, roCase{Type: "Element", Method: m, Limbs: alpha.LimbsOf(&e)})
			}
		}
	}
	// sums with pending carries: Add(m, m) for m with all-ones limbs
	for _, l := range []alpha.Limbs{{alpha.Mask51 + 18, alpha.Mask51, alpha.Mask51, alpha.Mask51, alpha.Mask51}, {alpha.Mask51 + 1, 0, 0, 0, 0}, {0, 0, 0, 0, alpha.Mask51 + 1}} {
		for _, m := range []string{"Equal", "Bytes", "IsNegative"} {
			out = append(out, roCase{Type: "Element", Method: m, Limbs: l})
		}
	}
	for i, v := range alpha.Scalars(true) {
		if i%4 == 0 {
			b := ref.LE32(v)
			out = append(out, roCase{Type: "Scalar", Method: "Equal", Enc: b[:]}, roCase{Type: "Scalar", Method: "Bytes", Enc: b[:]})
		}
	}
	for _, np := range alpha.Points(true) {
		e := ref.Encode(np.P)
		for f := 0; f < alpha.NumPointForms; f++ {
			for _, m := range []string{"Equal", "Bytes", "BytesMontgomery", "ExtendedCoordinates"} {
				out = append(out, roCase{Type: "Point", Method: m, Enc: append([]byte{}, e[:]...), Form: f})
			}
		}
	}
	return out
}

func runC18(ctx *core.Ctx) {
	ctx.Rule("stateless depth-first exploration of all schedules up to a preemption bound - and, for the scenarios named in the evidence, of ALL interleavings with pruning on complete state keys (scheduler state, vector clocks, full package memory incl. sync objects, per-thread observation chains) - of 10 closed concurrent harnesses (2-4 threads, 1-4 calls each, all starting from a cold process image restored from a generated snapshot of every package-level variable) over the real library, instrumented at check time: sync/sync.atomic replaced by a shim whose operations are scheduling points and happens-before edges, plus a scheduling point and vector-clock race check before every statement that mentions a mutable package-level variable (classification recomputed from the tree). Oracle on every complete schedule: results equal the sequential ones (and the math/big model), no happens-before race, no deadlock, per-variable write counts equal the sequential execution's (constructed exactly once). states = scheduling points visited, transitions = thread steps executed, schedules = complete executions")
	ctx.Assume("scheduling points at synchronisation operations and at mentions of mutable package-level variables suffice (accesses through escaped pointers are covered by the value oracle and the sampled -race pass)",
		"2-4 threads; more threads add no new kind of interaction for a once-only table (argument, not enumeration)",
		"the Go memory model is approximated by sequential consistency plus vector-clock happens-before")
	setupValues()
	mo := modelOuts(nil)
	if why := os.Getenv("VERIF_C18_PLAIN"); why != "" && os.Getenv("VERIF_C18_SHARD") == "" {
		// The library of this tree cannot be run under the controlled
		// scheduler: nothing is explored. Said here, and in exhaustive=false.
		ctx.NotExhaustive("schedules were NOT explored on this tree: " + why + ". Each scenario ran once, uncontrolled; only the value oracle, the read-only-argument checks and the free-running race pass apply")
		ctx.Extra("controlled_scheduler", "unavailable: "+why)
	}
	if os.Getenv("VERIF_C18_SHARD") == "" {
		subReadOnly.RunList(ctx, readOnlyCases())
	}
	var totalSched, totalPoints, totalSteps, totalStates int64
	report := map[string]any{}
	scs := scenarios()
	if dbg := os.Getenv("VERIF_C18_UNBOUNDED_DEBUG"); dbg != "" {
		var si int
		fmt.Sscan(dbg, &si)
		sc := scs[si]
		seq := sequentialRef(&sc)
		x := &explorer{sc: &sc, seq: seq, unbounded: true, visited: map[[16]byte]bool{}, byPreempt: map[int]int64{}, outcomes: map[string]int64{}, ctx: ctx, limit: 5_000_000}
		t0 := time.Now()
		x.explore(nil, nil)
		fmt.Printf("unbounded %s: schedules=%d states=%d pruned=%d fails=%d maxpoints=%d byPreempt=%v in %v\n", sc.name, x.schedules, len(x.visited), x.pruned, x.fails, x.maxPoints, x.byPreempt, time.Since(t0))
		os.Exit(0)
	}
	if spec := os.Getenv("VERIF_C18_SHARD"); spec != "" {
		var si, w, k int
		var out string
		f := strings.Split(spec, "|")
		fmt.Sscan(f[0], &si)
		fmt.Sscan(f[1], &w)
		fmt.Sscan(f[2], &k)
		out = f[3]
		sc := scs[si]
		seq := sequentialRef(&sc)
		if seq.unrestorable {
			b, _ := json.Marshal(shardOut{Capped: true})
			os.WriteFile(out, b, 0o644)
			os.Exit(0)
		}
		x := &explorer{sc: &sc, seq: seq, bound: boundFor(ctx, &sc), byPreempt: map[int]int64{}, outcomes: map[string]int64{}, ctx: ctx, limit: int64(tierLimit(ctx)), shardW: w, shardK: k}
		if len(f) > 4 && f[4] == "u" {
			// every interleaving (no preemption bound), pruned on complete state keys
			x.unbounded, x.visited, x.shardK = true, map[[16]byte]bool{}, 1
		}
		x.explore(nil, nil)
		b, _ := json.Marshal(shardOut{x.schedules, x.byPreempt, x.maxPoints, x.outcomes, x.viol, x.fails, x.capped, int64(len(x.visited)), x.pruned})
		if err := os.WriteFile(out, b, 0o644); err != nil {
			core.InternalError("%v", err)
		}
		os.Exit(0)
	}
	const K = 4
	type job struct {
		si, w     int
		unbounded bool
	}
	var jobs []job
	for si := range scs {
		for w := 0; w < K; w++ {
			jobs = append(jobs, job{si, w, false})
		}
	}
	// unbounded passes (all interleavings, state pruning): one process each
	for si, sc := range scs {
		if unboundedFor(ctx, sc.name) {
			jobs = append(jobs, job{si, 0, true})
		}
	}
	outs := make([]shardOut, len(jobs))
	dir, err := os.MkdirTemp(os.Getenv("VERIF_WORK"), "c18")
	if err != nil {
		core.InternalError("%v", err)
	}
	defer os.RemoveAll(dir)
	exe, _ := os.Executable()
	sem := make(chan struct{}, 16)
	done := make(chan error, len(jobs))
	for ji, j := range jobs {
		ji, j := ji, j
		go func() {
			sem <- struct{}{}
			defer func() { <-sem }()
			of := fmt.Sprintf("%s/s%d_%d.json", dir, j.si, j.w)
			args := []string{"-prop", "C18", "-tier", ctx.Tier}
			if !ctx.Deadline.IsZero() {
				// a shard started after the deadline has passed must still
				// get one (a non-positive value would mean "none")
				rem := time.Until(ctx.Deadline)
				if rem < time.Second {
					rem = time.Second
				}
				args = append(args, "-deadline", rem.String())
			}
			cmd := exec.Command(exe, args...)
			mode := "b"
			if j.unbounded {
				mode = "u"
				of = fmt.Sprintf("%s/s%d_unbounded.json", dir, j.si)
			}
			cmd.Env = append(os.Environ(), fmt.Sprintf("VERIF_C18_SHARD=%d|%d|%d|%s|%s", j.si, j.w, K, of, mode), "GOMAXPROCS=2")
			if b, err := cmd.CombinedOutput(); err != nil {
				done <- fmt.Errorf("shard %v: %v\n%s", j, err, b)
				return
			}
			b, err := os.ReadFile(of)
			if err == nil {
				err = json.Unmarshal(b, &outs[ji])
			}
			done <- err
		}()
	}
	for range jobs {
		if err := <-done; err != nil {
			core.InternalError("C18 shard failed: %v", err)
		}
	}
	for si, sc := range scs {
		sc := sc
		seq := sequentialRef(&sc)
		if seq.unrestorable {
			ctx.NotExhaustive(fmt.Sprintf("%s: NOT explored - this tree keeps state that cannot be put back into its cold state in-process (a second cold run of the same calls behaves differently; state captured by a closure, for instance)", sc.name))
		}
		// the sequential reference itself must agree with the model
		for ti, calls := range sc.threads {
			for ci, c := range calls {
				var want []byte
				switch {
				case c.name == "ScalarBaseMult" && sc.name[:2] != "S3" && ti == 0 && ci == 0:
					want = mo["sbm-k1"]
				case c.name == "VarTimeDoubleScalarBaseMult" && (sc.name[:2] == "S2" || sc.name[:2] == "S3") && ci == 0:
					want = mo["vtd-ab"]
				}
				if strings.Contains(c.name, "(shared slices)") {
					w := ref.Identity()
					for i := range shared.ss {
						pm, _, _, _, _, _ := alpha.PointModel(shared.ps[i])
						w = ref.Add(w, ref.Mul(ref.FromLE(shared.ss[i].Bytes()), pm))
					}
					e := ref.Encode(w)
					want = e[:]
				}
				if want != nil && !bytes.Equal(seq.outs[ti][ci], want) {
					ctx.ReportViolation("C18/schedule", 0, schedCase{sc.name, nil}, fmt.Sprintf("%s: sequential result of thread %d call %d differs from the model", sc.name, ti+1, ci))
				}
			}
		}
		agg := shardOut{ByPreempt: map[int]int64{}, Outcomes: map[string]int64{}}
		var unb *shardOut
		for ji, j := range jobs {
			if j.si != si {
				continue
			}
			o := outs[ji]
			if j.unbounded {
				oo := o
				unb = &oo
				agg.Fails += o.Fails
				for _, v := range o.Viol {
					ctx.ReportViolation("C18/schedule", len(v.Case.Choices), v.Case, v.Msg)
				}
				totalSched += o.Schedules
				totalStates += o.States
				continue
			}
			agg.Schedules += o.Schedules
			agg.Fails += o.Fails
			agg.Capped = agg.Capped || o.Capped
			if o.MaxPoints > agg.MaxPoints {
				agg.MaxPoints = o.MaxPoints
			}
			for k, v := range o.ByPreempt {
				agg.ByPreempt[k] += v
			}
			for k, v := range o.Outcomes {
				agg.Outcomes[k] += v
			}
			for _, v := range o.Viol {
				ctx.ReportViolation("C18/schedule", len(v.Case.Choices), v.Case, v.Msg)
			}
		}
		bound := boundFor(ctx, &sc)
		totalSched += agg.Schedules
		totalPoints += int64(agg.MaxPoints)
		var unbRep any = "not run in this tier"
		if unb != nil {
			maxPre := 0
			for k := range unb.ByPreempt {
				if k > maxPre {
					maxPre = k
				}
			}
			unbRep = map[string]any{"schedules": unb.Schedules, "distinct_states": unb.States, "pruned_revisits": unb.Pruned, "max_preemptions_in_a_schedule": maxPre, "complete": !unb.Capped}
			if unb.Capped {
				ctx.NotExhaustive(fmt.Sprintf("%s: unbounded exploration stopped by cap/deadline", sc.name))
			}
		}
		report[sc.name] = map[string]any{"unbounded_all_interleavings": unbRep, "threads": len(sc.threads), "preemption_bound": bound, "schedules": agg.Schedules, "schedules_by_preemptions": agg.ByPreempt,
			"max_scheduling_points_per_execution": agg.MaxPoints, "distinct_outcomes": len(agg.Outcomes), "sequential_access_profile": seq.counts, "capped": agg.Capped, "failing_schedules": agg.Fails}
		if agg.Capped {
			ctx.NotExhaustive(fmt.Sprintf("%s: stopped by cap/deadline inside preemption bound %d after %d schedules", sc.name, bound, agg.Schedules))
		}
		for k := range agg.Outcomes {
			ctx.Distinct("nontrivial:outcomes", []byte(sc.name+k))
		}
		if len(agg.Outcomes) < 2 && agg.Fails == 0 && !sc.quiet && os.Getenv("VERIF_C18_PLAIN") == "" {
			// Not an error: a tree without lazily built or otherwise shared
			// mutable state (tables computed at init, say) has nothing to
			// collide on. Recorded so that the evidence does not overstate.
			ctx.Note(fmt.Sprintf("scenario %q produced a single outcome under every explored schedule: the calls share no mutable state on this tree", sc.name))
			singleOutcome++
		}
		ctx.Sample(map[string]any{"scenario": sc.name, "threads": len(sc.threads), "schedules": agg.Schedules, "example_schedule_choices": agg.exampleOutcome()})
		totalSteps += agg.Schedules * int64(agg.MaxPoints)
	}
	ctx.AddStates(totalPoints + totalStates)
	ctx.AddTransitions(totalSteps)
	ctx.AddTraces(totalSched)
	ctx.AddEvals(totalSched)
	ctx.SubDone("C18/schedule", totalSched, true)
	ctx.Extra("scenarios", report)
	if f := os.Getenv("VERIF_INSTR_REPORT"); f != "" {
		if b, err := os.ReadFile(f); err == nil {
			var v any
			json.Unmarshal(b, &v)
			ctx.Extra("instrumentation", v)
		}
	}
	// supporting pass
	procs, gor := 6, 8
	if !ctx.Quick() {
		procs, gor = 60, 16
	}
	if os.Getenv("VERIF_RACE_BIN") != "" {
		if f := racePass(procs, gor); f != nil {
			ctx.ReportViolation("C18/race-pass", 0, map[string]int{"procs": procs, "goroutines": gor}, f.Msg)
		}
		ctx.Extra("race_pass", map[string]any{"cold_processes": procs, "goroutines_each": gor, "role": "supporting (samples schedules; silence adds no coverage claim)"})
	} else {
		ctx.Note("free-running -race pass skipped (race binary not built)")
	}
}

func (o shardOut) exampleOutcome() string {
	for k := range o.Outcomes {
		return "per-thread step counts " + k
	}
	return ""
}

func boundFor(ctx *core.Ctx, sc *scenario) int {
	if len(sc.threads) >= 4 {
		if ctx.Quick() {
			return 1
		}
		return 2
	}
	if ctx.Quick() {
		return 2
	}
	if len(sc.threads) >= 3 {
		return 3
	}
	return 4
}

// unboundedFor: scenarios explored without a preemption bound (every
// interleaving at the granularity of visible operations, with state pruning).
func unboundedFor(ctx *core.Ctx, name string) bool {
	switch name[:3] {
	case "S1 ", "S6 ":
		return true
	case "S2 ", "S3 ", "S5 ", "S7 ", "S8 ":
		return !ctx.Quick()
	}
	return false
}

func tierLimit(ctx *core.Ctx) int {
	if ctx.Quick() {
		return 60000
	}
	return 1500000
}
