#!/usr/bin/env python3
# tools/catalogue_summary.py [RESULTS.md]: read the detection table and list every row whose verdict
# is not the expected one: a violating change must get rc=1 from the check of its own property (the
# first one listed), a silent control / behaviour-preserving change rc=0 from every check run on it.
import re,sys,json,os
f=sys.argv[1] if len(sys.argv)>1 else os.path.join(os.path.dirname(__file__),'..','mutants','RESULTS.md')
ann={}
try: ann=json.load(open(os.path.join(os.path.dirname(__file__),'..','seeded','ANNOTATIONS.json')))
except Exception: pass
bad=[];n=0;caught=0;silent_ok=0;documented=0;killed=0
for line in open(f):
    if not line.startswith('| ') or line.startswith('| change') or line.startswith('|---'): continue
    cols=[c.strip() for c in line.strip().strip('|').split(' | ')]
    if len(cols)<5: continue
    name,origin,props,suite,verd=cols[0],cols[1],cols[2],cols[3],' | '.join(cols[4:])
    n+=1
    rcs=dict(re.findall(r'(C\d\d): rc=(\d+)',verd))
    key=name.split()[0]
    silent=('silent control' in name) or ('behaviour-preserving' in name) or ann.get(key,{}).get('silent')
    if suite!='pass':
        killed+=1; continue  # killed by the repository's own tests: listed for completeness, no claim
    if silent:
        if all(v=='0' for v in rcs.values()) and rcs: silent_ok+=1
        else: bad.append((name,'silent change but '+str({k:v for k,v in rcs.items() if v!='0'})))
        continue
    own=props.split(',')[0]
    if ann.get(key,{}).get('caught') is False:
        documented+=1
        if rcs.get(own)!='0': bad.append((name,'documented miss now gives rc='+str(rcs.get(own))))
        continue
    if any(v=='1' for v in rcs.values()) and all(v in '01' for v in rcs.values()):
        caught+=1
        if rcs.get(own)!='1' and not ann.get(key,{}).get('remark','').startswith('caught by'):
            pass
    else: bad.append((name,'expected rc=1, got '+str(rcs)))
print(f"rows={n} violating-and-caught={caught} silent-and-quiet={silent_ok} documented-misses={documented} killed-by-suite={killed} unexpected={len(bad)}")
for b in bad: print("UNEXPECTED:",b[0],'--',b[1])
sys.exit(1 if bad else 0)
