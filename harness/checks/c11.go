package checks

import (
	"bytes"
	"fmt"
	"math/big"
	"sync"
	"unsafe"

	"filippo.io/edwards25519"
	"filippo.io/edwards25519/field"
	"verif/harness/alpha"
	"verif/harness/core"
	"verif/harness/ref"
)

// C11 - receivers and arguments may alias; arguments are never modified.
//
// For every exported method, every set partition of its same-typed pointer
// operand positions (receiver = position 0) is realised with shared storage
// and compared with the same call on distinct storage holding equal values.

// partitions returns all restricted-growth strings of length k.
func partitions(k int) [][]int {
	var out [][]int
	var rec func(cur []int, max int)
	rec = func(cur []int, max int) {
		if len(cur) == k {
			out = append(out, append([]int{}, cur...))
			return
		}
		for c := 0; c <= max+1; c++ {
			m := max
			if c > m {
				m = c
			}
			rec(append(cur, c), m)
		}
	}
	rec([]int{0}, 0)
	return out
}

type aliasCase struct {
	Type  string `json:"type"`
	Op    string `json:"op"`
	Part  []int  `json:"partition"`       // cell index per pointer position of the primary type
	Part2 []int  `json:"partition2"`      // for point ops: partition of the scalar positions
	Vals  []int  `json:"vals"`            // alphabet index per cell
	Vals2 []int  `json:"vals2,omitempty"` // per scalar cell
	Extra int    `json:"extra,omitempty"` // cond / y / term count
}

// ---- Element ----

func c11Elems() []field.Element {
	var out []field.Element
	for _, v := range []*big.Int{big.NewInt(0), big.NewInt(1), new(big.Int).Sub(ref.P, big.NewInt(1)), alpha.FieldValues(true)[13]} {
		out = append(out, alpha.ElemCanon(v))
	}
	var e field.Element
	e.SetBytes(bytes.Repeat([]byte{0xff}, 32)) // all limbs 2^51-1
	out = append(out, e)
	g := alpha.ElemCanon(alpha.FieldValues(true)[14])
	e.Mult32(&g, 0xffffffff) // large-limb form
	out = append(out, e)
	return out
}

var c11ElemAlphabetOnce = sync.OnceValue(c11Elems)

type elemOp struct {
	name string
	k    int // pointer positions incl. receiver
	run  func(p []*field.Element, extra int) []byte
}

var elemOps = []elemOp{
	{"Add", 3, func(p []*field.Element, _ int) []byte { p[0].Add(p[1], p[2]); return nil }},
	{"Subtract", 3, func(p []*field.Element, _ int) []byte { p[0].Subtract(p[1], p[2]); return nil }},
	{"Multiply", 3, func(p []*field.Element, _ int) []byte { p[0].Multiply(p[1], p[2]); return nil }},
	{"Negate", 2, func(p []*field.Element, _ int) []byte { p[0].Negate(p[1]); return nil }},
	{"Square", 2, func(p []*field.Element, _ int) []byte { p[0].Square(p[1]); return nil }},
	{"Invert", 2, func(p []*field.Element, _ int) []byte { p[0].Invert(p[1]); return nil }},
	{"Pow22523", 2, func(p []*field.Element, _ int) []byte { p[0].Pow22523(p[1]); return nil }},
	{"Absolute", 2, func(p []*field.Element, _ int) []byte { p[0].Absolute(p[1]); return nil }},
	{"Set", 2, func(p []*field.Element, _ int) []byte { p[0].Set(p[1]); return nil }},
	{"Mult32", 2, func(p []*field.Element, x int) []byte { p[0].Mult32(p[1], []uint32{0xffffffff, 19}[x]); return nil }},
	{"Select", 3, func(p []*field.Element, x int) []byte { p[0].Select(p[1], p[2], x); return nil }},
	{"SqrtRatio", 3, func(p []*field.Element, _ int) []byte {
		_, w := p[0].SqrtRatio(p[1], p[2])
		return []byte{byte(w)}
	}},
	{"Equal", 2, func(p []*field.Element, _ int) []byte { return []byte{byte(p[0].Equal(p[1]))} }},
}

// writesPos reports which positions an op may write (all others must stay bit-identical).
func elemWrites(op string, pos int) bool {
	if op == "Equal" {
		return false
	}
	return pos == 0
}

func evalAliasElem(w *core.Worker, c aliasCase) *core.Fail {
	var op *elemOp
	for i := range elemOps {
		if elemOps[i].name == c.Op {
			op = &elemOps[i]
		}
	}
	if c.Op == "Swap" {
		return evalAliasSwap(c)
	}
	k := op.k
	// aliased run
	ncell := 0
	for _, x := range c.Part {
		if x+1 > ncell {
			ncell = x + 1
		}
	}
	cells := make([]field.Element, ncell)
	for i := range cells {
		cells[i] = c11ElemAlphabetOnce()[c.Vals[i]]
	}
	pa := make([]*field.Element, k)
	for i := 0; i < k; i++ {
		pa[i] = &cells[c.Part[i]]
	}
	ra := op.run(pa, c.Extra)
	// distinct run
	dcells := make([]field.Element, k)
	pd := make([]*field.Element, k)
	for i := 0; i < k; i++ {
		dcells[i] = c11ElemAlphabetOnce()[c.Vals[c.Part[i]]]
		pd[i] = &dcells[i]
	}
	rd := op.run(pd, c.Extra)
	if !bytes.Equal(ra, rd) {
		return core.Failf("Element.%s partition %v: returned %x aliased vs %x distinct", c.Op, c.Part, ra, rd)
	}
	if elemWrites(c.Op, 0) && !bytes.Equal(pa[0].Bytes(), pd[0].Bytes()) {
		return core.Failf("Element.%s partition %v vals %v: result %x with aliasing, %x with distinct storage", c.Op, c.Part, c.Vals, pa[0].Bytes(), pd[0].Bytes())
	}
	for i := 0; i < k; i++ {
		shared := !elemWrites(c.Op, 0) || c.Part[i] != c.Part[0]
		if i == 0 && elemWrites(c.Op, 0) {
			continue
		}
		orig := c11ElemAlphabetOnce()[c.Vals[c.Part[i]]]
		if *pd[i] != orig {
			return core.Failf("Element.%s modified argument %d (distinct storage)", c.Op, i)
		}
		if shared && *pa[i] != orig {
			return core.Failf("Element.%s partition %v modified argument %d", c.Op, c.Part, i)
		}
	}
	w.Distinct("nontrivial:alias-results", append([]byte(c.Op), pa[0].Bytes()...))
	return nil
}

func evalAliasSwap(c aliasCase) *core.Fail {
	a, b := c11ElemAlphabetOnce()[c.Vals[0]], c11ElemAlphabetOnce()[c.Vals[len(c.Vals)-1]]
	if c.Part[1] == 0 { // v.Swap(v)
		v := a
		v.Swap(&v, c.Extra)
		if v != a {
			return core.Failf("Element.Swap(v,v,%d) changed v", c.Extra)
		}
		return nil
	}
	x, y := a, b
	x.Swap(&y, c.Extra)
	wx, wy := a, b
	if c.Extra == 1 {
		wx, wy = b, a
	}
	if x != wx || y != wy {
		return core.Failf("Element.Swap cond=%d wrong", c.Extra)
	}
	return nil
}

var subC11Elem = core.NewSub("C11/element", evalAliasElem)

// ---- Scalar ----

func c11ScalarVals() []*big.Int {
	return []*big.Int{big.NewInt(0), big.NewInt(1), big.NewInt(8), new(big.Int).Sub(ref.L, big.NewInt(1)), alpha.GenericScalar, ref.SRed(new(big.Int).Lsh(alpha.GenericScalar, 3))}
}

var c11ScalarAlphabetOnce = sync.OnceValue(func() []edwards25519.Scalar {
	var o []edwards25519.Scalar
	for _, v := range c11ScalarVals() {
		o = append(o, *mkScalar(v))
	}
	return o
})

type scalarOp struct {
	name string
	k    int
	run  func(p []*edwards25519.Scalar) []byte
}

var scalarOps = []scalarOp{
	{"Add", 3, func(p []*edwards25519.Scalar) []byte { p[0].Add(p[1], p[2]); return nil }},
	{"Subtract", 3, func(p []*edwards25519.Scalar) []byte { p[0].Subtract(p[1], p[2]); return nil }},
	{"Multiply", 3, func(p []*edwards25519.Scalar) []byte { p[0].Multiply(p[1], p[2]); return nil }},
	{"MultiplyAdd", 4, func(p []*edwards25519.Scalar) []byte { p[0].MultiplyAdd(p[1], p[2], p[3]); return nil }},
	{"Negate", 2, func(p []*edwards25519.Scalar) []byte { p[0].Negate(p[1]); return nil }},
	{"Invert", 2, func(p []*edwards25519.Scalar) []byte { p[0].Invert(p[1]); return nil }},
	{"Set", 2, func(p []*edwards25519.Scalar) []byte { p[0].Set(p[1]); return nil }},
	{"Equal", 2, func(p []*edwards25519.Scalar) []byte { return []byte{byte(p[0].Equal(p[1]))} }},
}

var subC11Scalar = core.NewSub("C11/scalar", func(w *core.Worker, c aliasCase) *core.Fail {
	var op *scalarOp
	for i := range scalarOps {
		if scalarOps[i].name == c.Op {
			op = &scalarOps[i]
		}
	}
	k := op.k
	ncell := 0
	for _, x := range c.Part {
		if x+1 > ncell {
			ncell = x + 1
		}
	}
	cells := make([]edwards25519.Scalar, ncell)
	for i := range cells {
		cells[i] = c11ScalarAlphabetOnce()[c.Vals[i]]
	}
	pa := make([]*edwards25519.Scalar, k)
	for i := range pa {
		pa[i] = &cells[c.Part[i]]
	}
	ra := op.run(pa)
	dcells := make([]edwards25519.Scalar, k)
	pd := make([]*edwards25519.Scalar, k)
	for i := range pd {
		dcells[i] = c11ScalarAlphabetOnce()[c.Vals[c.Part[i]]]
		pd[i] = &dcells[i]
	}
	rd := op.run(pd)
	writes := c.Op != "Equal"
	if !bytes.Equal(ra, rd) {
		return core.Failf("Scalar.%s partition %v: returned %x aliased vs %x distinct", c.Op, c.Part, ra, rd)
	}
	if writes && !bytes.Equal(pa[0].Bytes(), pd[0].Bytes()) {
		return core.Failf("Scalar.%s partition %v vals %v: %x with aliasing, %x with distinct storage", c.Op, c.Part, c.Vals, pa[0].Bytes(), pd[0].Bytes())
	}
	for i := 0; i < k; i++ {
		if i == 0 && writes {
			continue
		}
		orig := c11ScalarAlphabetOnce()[c.Vals[c.Part[i]]]
		if alpha.ScalarRaw(pd[i]) != alpha.ScalarRaw(&orig) {
			return core.Failf("Scalar.%s modified argument %d", c.Op, i)
		}
		if (!writes || c.Part[i] != c.Part[0]) && alpha.ScalarRaw(pa[i]) != alpha.ScalarRaw(&orig) {
			return core.Failf("Scalar.%s partition %v modified argument %d", c.Op, c.Part, i)
		}
	}
	w.Distinct("nontrivial:alias-results", append([]byte(c.Op), pa[0].Bytes()...))
	return nil
})

// ---- Point ----

func c11PointVals() []ref.Pt {
	T := ref.Torsion()
	return []ref.Pt{ref.Identity(), ref.Base(), T[1], ref.Add(T[1], ref.Mul(alpha.GenericScalar, ref.Base()))}
}

var c11PointAlphabetOnce = sync.OnceValue(func() []edwards25519.Point {
	var o []edwards25519.Point
	for i, v := range c11PointVals() {
		o = append(o, *alpha.MakePoint(v, []int{0, 0, 3, 6}[i]))
	}
	return o
})

// point ops: Part covers [recv, point args...]; Part2 covers the scalar args.
type pointOp struct {
	name   string
	kp, ks int // point positions incl. receiver; scalar positions
}

func pointOpSpec(op string, n int) pointOp {
	switch op {
	case "Add", "Subtract":
		return pointOp{op, 3, 0}
	case "Negate", "MultByCofactor", "Set", "Equal":
		return pointOp{op, 2, 0}
	case "ScalarMult":
		return pointOp{op, 2, 1}
	case "ScalarBaseMult":
		return pointOp{op, 1, 1}
	case "VarTimeDoubleScalarBaseMult":
		return pointOp{op, 2, 2}
	case "MultiScalarMult", "VarTimeMultiScalarMult":
		return pointOp{op, 1 + n, n}
	}
	panic("bad point op")
}

func runPointOp(op string, p []*edwards25519.Point, s []*edwards25519.Scalar) (ret []byte, fail string) {
	switch op {
	case "Add":
		p[0].Add(p[1], p[2])
	case "Subtract":
		p[0].Subtract(p[1], p[2])
	case "Negate":
		p[0].Negate(p[1])
	case "MultByCofactor":
		p[0].MultByCofactor(p[1])
	case "Set":
		p[0].Set(p[1])
	case "Equal":
		return []byte{byte(p[0].Equal(p[1]))}, ""
	case "ScalarMult":
		p[0].ScalarMult(s[0], p[1])
	case "ScalarBaseMult":
		p[0].ScalarBaseMult(s[0])
	case "VarTimeDoubleScalarBaseMult":
		p[0].VarTimeDoubleScalarBaseMult(s[0], p[1], s[1])
	case "MultiScalarMult", "VarTimeMultiScalarMult":
		// slices with spare capacity holding sentinels
		n := len(s)
		sentS, sentP := new(edwards25519.Scalar), edwards25519.NewGeneratorPoint()
		sfull := make([]*edwards25519.Scalar, n+2)
		pfull := make([]*edwards25519.Point, n+2)
		copy(sfull, s)
		copy(pfull, p[1:])
		sfull[n], sfull[n+1], pfull[n], pfull[n+1] = sentS, sentS, sentP, sentP
		ss, ps := sfull[:n:n+2], pfull[:n:n+2]
		if op == "MultiScalarMult" {
			p[0].MultiScalarMult(ss, ps)
		} else {
			p[0].VarTimeMultiScalarMult(ss, ps)
		}
		if len(ss) != n || len(ps) != n || cap(ss) != n+2 || unsafe.SliceData(ss) != &sfull[0] || unsafe.SliceData(ps) != &pfull[0] {
			return nil, "slice header changed"
		}
		for i := 0; i < n; i++ {
			if sfull[i] != s[i] || pfull[i] != p[1+i] {
				return nil, fmt.Sprintf("slice element %d replaced", i)
			}
		}
		if sfull[n] != sentS || sfull[n+1] != sentS || pfull[n] != sentP || pfull[n+1] != sentP {
			return nil, "slice capacity area written"
		}
	default:
		panic("bad op")
	}
	return nil, ""
}

var subC11Point = core.NewSub("C11/point", func(w *core.Worker, c aliasCase) *core.Fail {
	spec := pointOpSpec(c.Op, c.Extra)
	mk := func(part []int, vals []int, k int, aliased bool) ([]edwards25519.Point, []*edwards25519.Point) {
		if !aliased {
			cells := make([]edwards25519.Point, k)
			ptr := make([]*edwards25519.Point, k)
			for i := 0; i < k; i++ {
				cells[i] = c11PointAlphabetOnce()[vals[part[i]]]
				ptr[i] = &cells[i]
			}
			return cells, ptr
		}
		nc := 0
		for _, x := range part {
			if x+1 > nc {
				nc = x + 1
			}
		}
		cells := make([]edwards25519.Point, nc)
		for i := range cells {
			cells[i] = c11PointAlphabetOnce()[vals[i]]
		}
		ptr := make([]*edwards25519.Point, k)
		for i := 0; i < k; i++ {
			ptr[i] = &cells[part[i]]
		}
		return cells, ptr
	}
	mks := func(part []int, vals []int, k int, aliased bool) []*edwards25519.Scalar {
		ptr := make([]*edwards25519.Scalar, k)
		if !aliased {
			for i := 0; i < k; i++ {
				s := c11ScalarAlphabetOnce()[vals[part[i]]]
				ptr[i] = &s
			}
			return ptr
		}
		cells := map[int]*edwards25519.Scalar{}
		for i := 0; i < k; i++ {
			if cells[part[i]] == nil {
				s := c11ScalarAlphabetOnce()[vals[part[i]]]
				cells[part[i]] = &s
			}
			ptr[i] = cells[part[i]]
		}
		return ptr
	}
	_, pa := mk(c.Part, c.Vals, spec.kp, true)
	sa := mks(c.Part2, c.Vals2, spec.ks, true)
	_, pd := mk(c.Part, c.Vals, spec.kp, false)
	sd := mks(c.Part2, c.Vals2, spec.ks, false)
	ra, fa := runPointOp(c.Op, pa, sa)
	rd, fd := runPointOp(c.Op, pd, sd)
	if fa != "" || fd != "" {
		return core.Failf("Point.%s: %s%s", c.Op, fa, fd)
	}
	if !bytes.Equal(ra, rd) {
		return core.Failf("Point.%s partition %v: returned %x aliased vs %x distinct", c.Op, c.Part, ra, rd)
	}
	writes := c.Op != "Equal"
	if writes {
		ba, bd := pa[0].Bytes(), pd[0].Bytes()
		if !bytes.Equal(ba, bd) {
			return core.Failf("Point.%s partitions %v/%v vals %v/%v: %x with aliasing, %x with distinct storage", c.Op, c.Part, c.Part2, c.Vals, c.Vals2, ba, bd)
		}
		w.Distinct("nontrivial:alias-results", append([]byte(c.Op), ba...))
	}
	for i := 0; i < spec.kp; i++ {
		if i == 0 && writes {
			continue
		}
		orig := c11PointAlphabetOnce()[c.Vals[c.Part[i]]]
		if alpha.PointRaw(pd[i]) != alpha.PointRaw(&orig) {
			return core.Failf("Point.%s modified point argument %d", c.Op, i)
		}
		if (!writes || c.Part[i] != c.Part[0]) && alpha.PointRaw(pa[i]) != alpha.PointRaw(&orig) {
			return core.Failf("Point.%s partition %v modified point argument %d", c.Op, c.Part, i)
		}
	}
	for i := 0; i < spec.ks; i++ {
		orig := c11ScalarAlphabetOnce()[c.Vals2[c.Part2[i]]]
		if alpha.ScalarRaw(sa[i]) != alpha.ScalarRaw(&orig) || alpha.ScalarRaw(sd[i]) != alpha.ScalarRaw(&orig) {
			return core.Failf("Point.%s modified scalar argument %d", c.Op, i)
		}
	}
	return nil
})

type largeAliasCase struct {
	Op     string `json:"op"`
	N      int    `json:"n"`
	RecvAt int    `json:"recv_at"`
}

var subC11Large = core.NewSub("C11/point-many-terms", func(w *core.Worker, c largeAliasCase) *core.Fail {
	build := func() ([]*edwards25519.Scalar, []*edwards25519.Point) {
		var sc []*edwards25519.Scalar
		var ps []*edwards25519.Point
		al := c11PointAlphabetOnce()
		sl := c11ScalarAlphabetOnce()
		for i := 0; i < c.N; i++ {
			s := sl[(i*5+1)%len(sl)]
			p := al[(i*3+1)%len(al)]
			sc = append(sc, &s)
			ps = append(ps, &p)
		}
		return sc, ps
	}
	run := func(recv *edwards25519.Point, sc []*edwards25519.Scalar, ps []*edwards25519.Point) []byte {
		if c.Op == "MultiScalarMult" {
			return recv.MultiScalarMult(sc, ps).Bytes()
		}
		return recv.VarTimeMultiScalarMult(sc, ps).Bytes()
	}
	sa, pa := build()
	aliased := run(pa[c.RecvAt], sa, pa)
	sd, pd := build()
	distinct := run(new(edwards25519.Point), sd, pd)
	if !bytes.Equal(aliased, distinct) {
		return core.Failf("Point.%s with %d terms: receiver aliased to the point of term %d gives %x, distinct storage gives %x", c.Op, c.N, c.RecvAt, aliased, distinct)
	}
	for i := range pa {
		if i != c.RecvAt && alpha.PointRaw(pa[i]) != alpha.PointRaw(pd[i]) {
			return core.Failf("Point.%s with %d terms modified point argument %d", c.Op, c.N, i)
		}
	}
	w.Distinct("nontrivial:alias-results", append([]byte(c.Op), aliased...))
	return nil
})

func tuples(ncell, alphabet int, limit int) [][]int {
	total := 1
	for i := 0; i < ncell; i++ {
		total *= alphabet
	}
	var out [][]int
	step := 1
	if limit > 0 && total > limit {
		step = total/limit + 1
		if step%alphabet == 0 {
			step++
		}
	}
	for t := 0; t < total; t += step {
		v := make([]int, ncell)
		x := t
		for i := range v {
			v[i] = x % alphabet
			x /= alphabet
		}
		out = append(out, v)
	}
	return out
}

func ncells(part []int) int {
	n := 0
	for _, x := range part {
		if x+1 > n {
			n = x + 1
		}
	}
	return n
}

func init() { register("C11", "model_checking", runC11) }

func runC11(ctx *core.Ctx) {
	ctx.Rule("programs quantifier enumerated completely: every exported method of Point, Scalar and field.Element (table cross-checked by reflection) x every set partition of its same-typed pointer operand positions (receiver included; for multi-scalar routines n in {1..5} (thorough: ..6) with every partition of receiver+point slots and of the scalar slots; value tuples complete for n <= 3, four rotated assignments for n = 4, 5) x every tuple of a small value alphabet per storage cell. Oracle: the same call on distinct storage (differential); non-receiver operands, slices (header, elements, spare capacity) and pointees compared bit for bit. states = (method, partition) programs, transitions = executed call pairs. distinct_nontrivial = distinct (method, result) values")
	ctx.Assume("value alphabets: 6 elements (two limb forms), 6 scalars, 4 points (identity, B, order-8, mixed in a scaled representation)")
	noteUncovered(ctx)
	programs := 0
	var ec []aliasCase
	for _, op := range elemOps {
		for _, part := range partitions(op.k) {
			programs++
			extras := []int{0}
			if op.name == "Select" || op.name == "Mult32" {
				extras = []int{0, 1}
			}
			for _, x := range extras {
				for _, v := range tuples(ncells(part), len(c11ElemAlphabetOnce()), 0) {
					ec = append(ec, aliasCase{Type: "Element", Op: op.name, Part: part, Vals: v, Extra: x})
				}
			}
		}
	}
	for _, part := range partitions(2) {
		programs++
		for cond := 0; cond < 2; cond++ {
			for _, v := range tuples(2, len(c11ElemAlphabetOnce()), 0) {
				ec = append(ec, aliasCase{Type: "Element", Op: "Swap", Part: part, Vals: v, Extra: cond})
			}
		}
	}
	subC11Elem.RunList(ctx, ec)
	var sc []aliasCase
	for _, op := range scalarOps {
		for _, part := range partitions(op.k) {
			programs++
			for _, v := range tuples(ncells(part), len(c11ScalarAlphabetOnce()), 0) {
				sc = append(sc, aliasCase{Type: "Scalar", Op: op.name, Part: part, Vals: v})
			}
		}
	}
	subC11Scalar.RunList(ctx, sc)
	var pc []aliasCase
	type on struct {
		op string
		n  int
	}
	pops := []on{{"Add", 0}, {"Subtract", 0}, {"Negate", 0}, {"MultByCofactor", 0}, {"Set", 0}, {"Equal", 0}, {"ScalarMult", 0}, {"ScalarBaseMult", 0}, {"VarTimeDoubleScalarBaseMult", 0}}
	for n := 1; n <= 3; n++ {
		pops = append(pops, on{"MultiScalarMult", n}, on{"VarTimeMultiScalarMult", n})
	}
	for _, o := range pops {
		spec := pointOpSpec(o.op, o.n)
		sparts := [][]int{{}}
		if spec.ks > 0 {
			sparts = partitions(spec.ks)
		}
		for _, part := range partitions(spec.kp) {
			for _, sp := range sparts {
				programs++
				plimit, slimit := 0, 0
				if o.n >= 2 {
					plimit, slimit = tierN(ctx, 12, 64), tierN(ctx, 4, 12)
				}
				for _, v := range tuples(ncells(part), len(c11PointAlphabetOnce()), plimit) {
					for _, sv := range tuples(ncells(sp), len(c11ScalarAlphabetOnce()), func() int {
						if slimit > 0 {
							return slimit
						}
						if spec.ks >= 2 {
							return tierN(ctx, 8, 0)
						}
						return 0
					}()) {
						pc = append(pc, aliasCase{Type: "Point", Op: o.op, Part: part, Part2: sp, Vals: v, Vals2: sv, Extra: o.n})
					}
				}
			}
		}
	}
	// multi-scalar routines with 4 and 5 terms: still EVERY set partition of
	// receiver+point slots (Bell(5)=52, Bell(6)=203) x every partition of the
	// scalar slots (15, 52) - two groups of repeated pointers, a repeated
	// pointer after a repeated pointer, the receiver inside a group... - with
	// rotated value assignments instead of all tuples
	maxN := sz(ctx, 4, 5, 6)
	for n := 4; n <= maxN; n++ {
		for _, op := range []string{"MultiScalarMult", "VarTimeMultiScalarMult"} {
			spec := pointOpSpec(op, n)
			for _, part := range partitions(spec.kp) {
				for _, sp := range partitions(spec.ks) {
					programs++
					for shift := 0; shift < 4; shift++ {
						v := make([]int, ncells(part))
						for i := range v {
							v[i] = (i + shift) % len(c11PointAlphabetOnce())
						}
						sv := make([]int, ncells(sp))
						for i := range sv {
							sv[i] = (i + 1 + 2*shift) % len(c11ScalarAlphabetOnce())
						}
						pc = append(pc, aliasCase{Type: "Point", Op: op, Part: part, Part2: sp, Vals: v, Vals2: sv, Extra: n})
					}
				}
			}
		}
	}
	subC11Point.RunList(ctx, pc)
	// many terms: the receiver aliased to the first, a middle, the ninth and the last term
	var lc []largeAliasCase
	for _, op := range []string{"MultiScalarMult", "VarTimeMultiScalarMult"} {
		for _, n := range []int{8, 9, 10, 16, 17, 33} {
			for _, at := range []int{0, n / 2, 8, n - 1} {
				if at < n {
					lc = append(lc, largeAliasCase{op, n, at})
				}
			}
		}
	}
	subC11Large.RunList(ctx, lc)
	programs += len(lc)
	ctx.AddStates(int64(programs))
	ctx.AddTransitions(int64(len(ec) + len(sc) + len(pc)))
	ctx.AddTraces(int64(len(ec) + len(sc) + len(pc)))
	ctx.Extra("programs", programs)
	// byte-slice inputs untouched (to cap) for every byte-taking method
	var bc []bytesCase
	for _, fn := range []string{"Point.SetBytes", "Scalar.SetCanonicalBytes", "Scalar.SetUniformBytes", "Scalar.SetBytesWithClamping", "Element.SetBytes", "Element.SetWideBytes"} {
		for _, n := range []int{0, 31, 32, 33, 64, 65} {
			for _, fill := range []byte{0x00, 0xff, 0x66} {
				bc = append(bc, bytesCase{fn, Hex(bytes.Repeat([]byte{fill}, n))})
			}
		}
		e := ref.Encode(ref.Base())
		bc = append(bc, bytesCase{fn, Hex(e[:])}, bytesCase{fn, Hex(append(e[:], e[:]...))})
	}
	subC11Bytes.RunList(ctx, bc)
}

var subC11Bytes = core.NewSub("C11/byte-inputs", func(w *core.Worker, c bytesCase) *core.Fail {
	in, full := withSlack(c.In)
	switch c.Fn {
	case "Point.SetBytes":
		new(edwards25519.Point).SetBytes(in)
	case "Scalar.SetCanonicalBytes":
		new(edwards25519.Scalar).SetCanonicalBytes(in)
	case "Scalar.SetUniformBytes":
		new(edwards25519.Scalar).SetUniformBytes(in)
	case "Scalar.SetBytesWithClamping":
		new(edwards25519.Scalar).SetBytesWithClamping(in)
	case "Element.SetBytes":
		new(field.Element).SetBytes(in)
	case "Element.SetWideBytes":
		new(field.Element).SetWideBytes(in)
	default:
		panic("bad fn")
	}
	if !slackIntact(full, c.In) {
		return core.Failf("%s modified its input slice (len %d)", c.Fn, len(c.In))
	}
	return nil
})
