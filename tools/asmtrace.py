# gdb -batch -x tools/asmtrace.py --args <asmdrv> <n>   (env ASMTRACE_OUT=<json>)
# Single-steps every call of the assembly routines of package field (names in
# ASMTRACE_FUNCS, found by ./check with go tool nm) to its RET and
# records (pc - function start, mnemonic, effective address of every memory
# operand). All calls of one function must give the identical trace.
import gdb, json, os, re, hashlib

gdb.execute("set pagination off")
gdb.execute("set confirm off")
gdb.execute("handle SIGURG nostop noprint pass")
gdb.execute("set environment GODEBUG=asyncpreemptoff=1")
gdb.execute("set environment GOMAXPROCS=1")

FUNCS = [f for f in os.environ.get("ASMTRACE_FUNCS", "filippo.io/edwards25519/field.feMul,filippo.io/edwards25519/field.feSquare").split(",") if f]
res = {}
MEM = re.compile(r'(-?0x[0-9a-f]+|-?\d+)?\(%(\w+)(?:,%(\w+),(\d))?\)')

def reg(name):
    return int(gdb.parse_and_eval("$" + name)) & 0xffffffffffffffff

class BP(gdb.Breakpoint):
    def __init__(self, fn):
        super().__init__(fn)
        self.fn = fn
    def stop(self):
        return True

# package initialisation runs field code on other buffers: start tracing at main.main
gdb.execute("tbreak main.main")
gdb.execute("run")
bps = {}
for f in FUNCS:
    try:
        bps[f] = BP(f)
    except Exception as e:
        res[f] = {"error": str(e)}
gdb.execute("continue")
traces = {f: {} for f in FUNCS}
calls = {f: 0 for f in FUNCS}
ninstr = {f: 0 for f in FUNCS}
samples = {}
while True:
    try:
        frame = gdb.selected_frame()
    except gdb.error:
        break
    fn = frame.name()
    if fn not in FUNCS:
        try:
            gdb.execute("continue")
            continue
        except gdb.error:
            break
    start = int(frame.pc())
    sp0 = reg("rsp")
    tr = []
    steps = 0
    while True:
        pc = int(gdb.parse_and_eval("$pc"))
        ins = gdb.execute("x/i $pc", to_string=True)
        ins = ins.split(":", 1)[1].strip() if ":" in ins else ins.strip()
        mnem = ins.split()[0]
        addrs = []
        for m in MEM.finditer(ins):
            disp = int(m.group(1), 0) if m.group(1) else 0
            ea = disp + reg(m.group(2))
            if m.group(3):
                ea += reg(m.group(3)) * int(m.group(4))
            addrs.append(ea & 0xffffffffffffffff)
        tr.append((pc - start, mnem, tuple(addrs)))
        steps += 1
        if mnem.startswith("ret") or steps > 5000:
            break
        gdb.execute("stepi", to_string=True)
    h = hashlib.sha256(repr(tr).encode()).hexdigest()
    traces[fn].setdefault(h, 0)
    traces[fn][h] += 1
    calls[fn] += 1
    ninstr[fn] = max(ninstr[fn], steps)
    if (fn, h) not in samples and len(samples) < 8:
        samples[(fn, h)] = tr[:12]
    try:
        gdb.execute("continue")
    except gdb.error:
        break

out = {}
for f in FUNCS:
    out[f] = {"calls": calls[f], "distinct_traces": len(traces[f]), "instructions_per_call": ninstr[f],
              "trace_hashes": traces[f]}
out["samples"] = [{"function": k[0], "hash": k[1], "first_steps": v} for k, v in samples.items()]
json.dump(out, open(os.environ.get("ASMTRACE_OUT", "/dev/stdout"), "w"))
