// Package limbmodel is a small abstract transition system over per-limb upper
// bounds of field.Element representations. Its states are bound vectors, its
// transitions the exported field operations read as interval transformers;
// iterating to the least fixpoint yields the closed representation box: no
// sequence of public operations can leave it (provided the model describes the
// code, which the C09 conformance run checks by replaying the corner vectors
// of every abstract transition through the real operations).
package limbmodel

import (
	"fmt"
	"math/big"
)

type Bound [5]*big.Int

var (
	mask  = new(big.Int).Sub(new(big.Int).Lsh(big.NewInt(1), 51), big.NewInt(1))
	two64 = new(big.Int).Lsh(big.NewInt(1), 64)
	// 2p in limb form, as added by Subtract
	twoP = [5]*big.Int{big.NewInt(0xFFFFFFFFFFFDA), big.NewInt(0xFFFFFFFFFFFFE), big.NewInt(0xFFFFFFFFFFFFE), big.NewInt(0xFFFFFFFFFFFFE), big.NewInt(0xFFFFFFFFFFFFE)}
)

func bi(x int64) *big.Int { return big.NewInt(x) }

func Const(v ...uint64) Bound {
	var b Bound
	for i := range b {
		b[i] = new(big.Int).SetUint64(v[i])
	}
	return b
}

func (b Bound) Uint64() [5]uint64 {
	var o [5]uint64
	for i := range b {
		if !b[i].IsUint64() {
			panic("bound exceeds uint64")
		}
		o[i] = b[i].Uint64()
	}
	return o
}

func Join(a, b Bound) Bound {
	var o Bound
	for i := range o {
		if a[i].Cmp(b[i]) >= 0 {
			o[i] = a[i]
		} else {
			o[i] = b[i]
		}
	}
	return o
}

func (a Bound) Leq(b Bound) bool {
	for i := range a {
		if a[i].Cmp(b[i]) > 0 {
			return false
		}
	}
	return true
}

// Obligation is an overflow/underflow side condition of the real code that
// the abstract run evaluates at the top of the box (all are monotone).
type Obligation struct {
	Op   string
	What string
	OK   bool
}

type Model struct {
	Obligations []Obligation
	MaxAccBits  int
}

func (m *Model) oblige(op, what string, ok bool) {
	m.Obligations = append(m.Obligations, Obligation{op, what, ok})
}

func lowMax(u *big.Int) *big.Int { // max of (x & mask) for x <= u
	if u.Cmp(mask) >= 0 {
		return mask
	}
	return u
}

// Carry: one pass of carryPropagate on inputs bounded by u (64-bit limbs).
func (m *Model) Carry(op string, u Bound) Bound {
	var c [5]*big.Int
	for i := range c {
		m.oblige(op, fmt.Sprintf("limb %d fits uint64 before carry", i), u[i].Cmp(two64) < 0)
		c[i] = new(big.Int).Rsh(u[i], 51)
	}
	var o Bound
	o[0] = new(big.Int).Add(lowMax(u[0]), new(big.Int).Mul(c[4], bi(19)))
	for i := 1; i < 5; i++ {
		o[i] = new(big.Int).Add(lowMax(u[i]), c[i-1])
	}
	return o
}

func (m *Model) Add(a, b Bound) Bound {
	var s Bound
	for i := range s {
		s[i] = new(big.Int).Add(a[i], b[i])
	}
	return m.Carry("Add", s)
}

// Subtract: (a + 2p) - b; needs b_i <= 2p_i so that it cannot underflow for a = 0.
func (m *Model) Subtract(a, b Bound) Bound {
	var s Bound
	for i := range s {
		m.oblige("Subtract", fmt.Sprintf("subtrahend limb %d <= 2p limb (no underflow)", i), b[i].Cmp(twoP[i]) <= 0)
		s[i] = new(big.Int).Add(a[i], twoP[i])
	}
	return m.Carry("Subtract", s)
}

// Multiply covers feMul and feSquare (same column sums).
func (m *Model) Multiply(a, b Bound) Bound {
	mul := func(x, y *big.Int) *big.Int { return new(big.Int).Mul(x, y) }
	m19 := func(x *big.Int) *big.Int {
		r := new(big.Int).Mul(x, bi(38)) // squaring forms 38*l (the larger of 19*,38*)
		m.oblige("Multiply", "19*/38*limb fits uint64", r.Cmp(two64) < 0)
		return new(big.Int).Mul(x, bi(19))
	}
	a19 := [5]*big.Int{nil, m19(a[1]), m19(a[2]), m19(a[3]), m19(a[4])}
	sum := func(t ...*big.Int) *big.Int {
		s := new(big.Int)
		for _, x := range t {
			s.Add(s, x)
		}
		return s
	}
	r := [5]*big.Int{
		sum(mul(a[0], b[0]), mul(a19[1], b[4]), mul(a19[2], b[3]), mul(a19[3], b[2]), mul(a19[4], b[1])),
		sum(mul(a[0], b[1]), mul(a[1], b[0]), mul(a19[2], b[4]), mul(a19[3], b[3]), mul(a19[4], b[2])),
		sum(mul(a[0], b[2]), mul(a[1], b[1]), mul(a[2], b[0]), mul(a19[3], b[4]), mul(a19[4], b[3])),
		sum(mul(a[0], b[3]), mul(a[1], b[2]), mul(a[2], b[1]), mul(a[3], b[0]), mul(a19[4], b[4])),
		sum(mul(a[0], b[4]), mul(a[1], b[3]), mul(a[2], b[2]), mul(a[3], b[1]), mul(a[4], b[0])),
	}
	var c [5]*big.Int
	for i := range r {
		if r[i].BitLen() > m.MaxAccBits {
			m.MaxAccBits = r[i].BitLen()
		}
		m.oblige("Multiply", fmt.Sprintf("column %d below 2^115 (shiftRightBy51 keeps all bits)", i), r[i].BitLen() <= 115)
		c[i] = new(big.Int).Rsh(r[i], 51)
	}
	var rr Bound
	rr[0] = new(big.Int).Add(mask, new(big.Int).Mul(c[4], bi(19)))
	for i := 1; i < 5; i++ {
		rr[i] = new(big.Int).Add(mask, c[i-1])
	}
	return m.Carry("Multiply", rr)
}

func (m *Model) Mult32(x Bound) Bound {
	y := new(big.Int).SetUint64(0xffffffff)
	var hi [5]*big.Int
	for i := range hi {
		p := new(big.Int).Mul(x[i], y)
		m.oblige("Mult32", fmt.Sprintf("limb %d product high part fits (mh<<13)", i), p.BitLen() <= 115)
		hi[i] = new(big.Int).Rsh(p, 51)
	}
	var o Bound
	o[0] = new(big.Int).Add(mask, new(big.Int).Mul(hi[4], bi(19)))
	for i := 1; i < 5; i++ {
		o[i] = new(big.Int).Add(mask, hi[i-1])
	}
	for i := range o {
		m.oblige("Mult32", fmt.Sprintf("output limb %d fits uint64", i), o[i].Cmp(two64) < 0)
	}
	return o
}

func SetBytesBound() Bound { return Bound{mask, mask, mask, mask, mask} }

func (m *Model) SetWideBytes() Bound {
	lo, hi := SetBytesBound(), SetBytesBound()
	var s Bound
	for i := range s {
		s[i] = new(big.Int).Add(lo[i], new(big.Int).Mul(hi[i], bi(38)))
	}
	s[0] = new(big.Int).Add(s[0], bi(19+2*19*19))
	return m.Carry("SetWideBytes", s)
}

// OpBounds holds, per operation, the output bound on operands from box u.
type OpBounds map[string]Bound

func (m *Model) Step(u Bound) OpBounds {
	o := OpBounds{}
	o["SetBytes"] = SetBytesBound()
	o["SetWideBytes"] = m.SetWideBytes()
	o["Add"] = m.Add(u, u)
	o["Subtract"] = m.Subtract(u, u)
	o["Negate"] = m.Subtract(Const(0, 0, 0, 0, 0), u)
	o["Multiply"] = m.Multiply(u, u)
	o["Square"] = o["Multiply"]
	o["Invert"] = o["Multiply"]
	o["Pow22523"] = o["Multiply"]
	o["Mult32"] = m.Mult32(u)
	o["Absolute"] = Join(u, o["Negate"])
	o["SqrtRatio"] = Join(o["Multiply"], o["Negate"])
	o["Select"] = u
	o["Swap"] = u
	o["Set"] = u
	return o
}

// Fixpoint iterates the box from the SetBytes bound until it is closed.
func Fixpoint() (box Bound, ops OpBounds, m *Model, rounds int) {
	box = SetBytesBound()
	for rounds = 1; rounds < 64; rounds++ {
		m = &Model{}
		ops = m.Step(box)
		n := box
		for _, b := range ops {
			n = Join(n, b)
		}
		if n.Leq(box) {
			return box, ops, m, rounds
		}
		box = n
	}
	panic("limb model did not converge")
}
