// Package ref is the boring reference model: GF(p), Z/l and the twisted
// Edwards curve -x^2+y^2 = 1+d x^2 y^2 in math/big, written from the
// definitions (RFC 8032, RFC 7748, ristretto255 SQRT_RATIO_M1), not from the
// implementation under test.
package ref

import (
	"fmt"
	"math/big"
	"sync"
)

var (
	P      = new(big.Int).Sub(new(big.Int).Lsh(big.NewInt(1), 255), big.NewInt(19))
	L, _   = new(big.Int).SetString("7237005577332262213973186563042994240857116359379907606001950938285454250989", 10)
	D      *big.Int
	SqrtM1 *big.Int
	One    = big.NewInt(1)
	Zero   = big.NewInt(0)
	Two    = big.NewInt(2)
)

func init() {
	// d = -121665/121666
	D = FDiv(FNeg(big.NewInt(121665)), big.NewInt(121666))
	// sqrt(-1) = 2^((p-1)/4)
	e := new(big.Int).Rsh(new(big.Int).Sub(P, One), 2)
	SqrtM1 = new(big.Int).Exp(Two, e, P)
}

// ---- field ----

func FRed(a *big.Int) *big.Int    { return new(big.Int).Mod(a, P) }
func FAdd(a, b *big.Int) *big.Int { return FRed(new(big.Int).Add(a, b)) }
func FSub(a, b *big.Int) *big.Int { return FRed(new(big.Int).Sub(a, b)) }
func FNeg(a *big.Int) *big.Int    { return FRed(new(big.Int).Neg(a)) }
func FMul(a, b *big.Int) *big.Int { return FRed(new(big.Int).Mul(a, b)) }
func FSq(a *big.Int) *big.Int     { return FMul(a, a) }

// FInv returns 1/a with the 1/0 = 0 convention.
func FInv(a *big.Int) *big.Int {
	r := FRed(a)
	if r.Sign() == 0 {
		return new(big.Int)
	}
	return new(big.Int).ModInverse(r, P)
}
func FDiv(a, b *big.Int) *big.Int { return FMul(a, FInv(b)) }
func FPow(a, e *big.Int) *big.Int { return new(big.Int).Exp(FRed(a), e, P) }

// FIsSquare: Euler criterion (0 counts as a square).
func FIsSquare(a *big.Int) bool {
	r := FRed(a)
	if r.Sign() == 0 {
		return true
	}
	e := new(big.Int).Rsh(new(big.Int).Sub(P, One), 1)
	return new(big.Int).Exp(r, e, P).Cmp(One) == 0
}

// FSqrtEven returns the even ("non-negative") square root of a square a.
func FSqrtEven(a *big.Int) *big.Int {
	r := new(big.Int).ModSqrt(FRed(a), P)
	if r == nil {
		panic("FSqrtEven of a non-square")
	}
	if r.Bit(0) == 1 {
		r = FNeg(r)
	}
	return r
}

// LE32 returns the 32-byte little-endian encoding of 0 <= a < 2^256.
func LE32(a *big.Int) [32]byte {
	var out [32]byte
	b := a.Bytes()
	if len(b) > 32 {
		panic("LE32: value too large")
	}
	for i, v := range b {
		out[len(b)-1-i] = v
	}
	return out
}

func FromLE(b []byte) *big.Int {
	r := make([]byte, len(b))
	for i, v := range b {
		r[len(b)-1-i] = v
	}
	return new(big.Int).SetBytes(r)
}

// FDecode is the documented Element.SetBytes semantics: bit 255 ignored,
// result reduced mod p.
func FDecode(b []byte) *big.Int {
	v := FromLE(b)
	v.SetBit(v, 255, 0)
	return FRed(v)
}

// SqrtRatioM1 per ristretto255: returns (wasSquare, r).
func SqrtRatioM1(u, v *big.Int) (bool, *big.Int) {
	u, v = FRed(u), FRed(v)
	if u.Sign() == 0 {
		return true, new(big.Int)
	}
	if v.Sign() == 0 {
		return false, new(big.Int)
	}
	w := FDiv(u, v)
	if FIsSquare(w) {
		return true, FSqrtEven(w)
	}
	return false, FSqrtEven(FMul(SqrtM1, w))
}

// ---- scalars ----

func SRed(a *big.Int) *big.Int    { return new(big.Int).Mod(a, L) }
func SAdd(a, b *big.Int) *big.Int { return SRed(new(big.Int).Add(a, b)) }
func SSub(a, b *big.Int) *big.Int { return SRed(new(big.Int).Sub(a, b)) }
func SNeg(a *big.Int) *big.Int    { return SRed(new(big.Int).Neg(a)) }
func SMul(a, b *big.Int) *big.Int { return SRed(new(big.Int).Mul(a, b)) }
func SInv(a *big.Int) *big.Int {
	r := SRed(a)
	if r.Sign() == 0 {
		return new(big.Int)
	}
	return new(big.Int).ModInverse(r, L)
}

// Clamp is RFC 8032 5.1.5 buffer pruning, returning the integer (not reduced).
func Clamp(b []byte) *big.Int {
	var c [32]byte
	copy(c[:], b)
	c[0] &= 248
	c[31] &= 127
	c[31] |= 64
	return FromLE(c[:])
}

// ---- curve ----

// Pt is an affine point.
type Pt struct{ X, Y *big.Int }

func Identity() Pt { return Pt{new(big.Int), big.NewInt(1)} }

func (a Pt) Equal(b Pt) bool { return a.X.Cmp(b.X) == 0 && a.Y.Cmp(b.Y) == 0 }
func (a Pt) String() string  { return fmt.Sprintf("(%x,%x)", a.X, a.Y) }

func OnCurve(a Pt) bool {
	x2, y2 := FSq(a.X), FSq(a.Y)
	lhs := FSub(y2, x2)
	rhs := FAdd(One, FMul(D, FMul(x2, y2)))
	return lhs.Cmp(rhs) == 0
}

// Add is the textbook complete addition law for a = -1.
func Add(a, b Pt) Pt {
	x1y2 := FMul(a.X, b.Y)
	y1x2 := FMul(a.Y, b.X)
	y1y2 := FMul(a.Y, b.Y)
	x1x2 := FMul(a.X, b.X)
	t := FMul(D, FMul(x1x2, y1y2))
	x3 := FDiv(FAdd(x1y2, y1x2), FAdd(One, t))
	y3 := FDiv(FAdd(y1y2, x1x2), FSub(One, t))
	return Pt{x3, y3}
}

func Neg(a Pt) Pt    { return Pt{FNeg(a.X), new(big.Int).Set(a.Y)} }
func Sub(a, b Pt) Pt { return Add(a, Neg(b)) }

type dblKey struct{ x, y string }

var dblCache sync.Map // dblKey -> []Pt

func doublings(a Pt) []Pt {
	k := dblKey{a.X.Text(16), a.Y.Text(16)}
	if v, ok := dblCache.Load(k); ok {
		return v.([]Pt)
	}
	t := make([]Pt, 256)
	t[0] = a
	for i := 1; i < 256; i++ {
		t[i] = Add(t[i-1], t[i-1])
	}
	dblCache.Store(k, t)
	return t
}

type mulKey struct{ k, x, y string }

var mulCache sync.Map

// Mul returns [k]a for 0 <= k < 2^256 (k is used as an integer, not reduced).
func Mul(k *big.Int, a Pt) Pt {
	if k.Sign() < 0 || k.BitLen() > 256 {
		panic("ref.Mul: scalar out of range")
	}
	mk := mulKey{k.Text(16), a.X.Text(16), a.Y.Text(16)}
	if v, ok := mulCache.Load(mk); ok {
		return v.(Pt)
	}
	t := doublings(a)
	r := Identity()
	for i := 0; i < k.BitLen(); i++ {
		if k.Bit(i) == 1 {
			r = Add(r, t[i])
		}
	}
	mulCache.Store(mk, r)
	return r
}

// Encode is RFC 8032 5.1.2.
func Encode(a Pt) [32]byte {
	out := LE32(FRed(a.Y))
	out[31] |= byte(FRed(a.X).Bit(0)) << 7
	return out
}

// Decode implements the documented accept set of Point.SetBytes: length 32;
// y = low 255 bits mod p; accept iff x^2 = (y^2-1)/(d y^2+1) is a square; x
// is the root with the requested parity; x = 0 stays 0 whatever the sign bit.
func Decode(b []byte) (Pt, bool) {
	if len(b) != 32 {
		return Pt{}, false
	}
	y := FDecode(b)
	sign := uint(b[31] >> 7)
	y2 := FSq(y)
	u := FSub(y2, One)
	v := FAdd(FMul(D, y2), One)
	if v.Sign() == 0 {
		panic("d*y^2+1 = 0: d would be a square")
	}
	w := FDiv(u, v)
	if !FIsSquare(w) {
		return Pt{}, false
	}
	x := FSqrtEven(w)
	if x.Bit(0) != sign {
		x = FNeg(x)
	}
	return Pt{x, y}, true
}

// Montgomery is RFC 7748's u = (1+y)/(1-y) with 1/0 = 0, canonical LE.
func Montgomery(a Pt) [32]byte {
	u := FDiv(FAdd(One, a.Y), FSub(One, a.Y))
	return LE32(u)
}

// ExtendedValid: Z != 0, -X^2+Y^2 = Z^2+dT^2, XY = ZT (all mod p).
func ExtendedValid(X, Y, Z, T *big.Int) bool {
	if FRed(Z).Sign() == 0 {
		return false
	}
	lhs := FSub(FSq(Y), FSq(X))
	rhs := FAdd(FSq(Z), FMul(D, FSq(T)))
	if lhs.Cmp(rhs) != 0 {
		return false
	}
	return FMul(X, Y).Cmp(FMul(Z, T)) == 0
}

func Affine(X, Y, Z *big.Int) Pt {
	zi := FInv(Z)
	return Pt{FMul(X, zi), FMul(Y, zi)}
}

// Base is the RFC 8032 base point (y = 4/5, x even).
func Base() Pt {
	y := FDiv(big.NewInt(4), big.NewInt(5))
	e := LE32(y)
	p, ok := Decode(e[:])
	if !ok {
		panic("base point does not decode")
	}
	return p
}

// SelfTest checks the model against published constants; a failure is a
// machinery error, not a finding.
func SelfTest() error {
	dWant, _ := new(big.Int).SetString("37095705934669439343138083508754565189542113879843219016388785533085940283555", 10)
	if D.Cmp(dWant) != 0 {
		return fmt.Errorf("d constant mismatch")
	}
	if FAdd(FSq(SqrtM1), One).Sign() != 0 {
		return fmt.Errorf("sqrt(-1)^2 != -1")
	}
	if FIsSquare(D) {
		return fmt.Errorf("d is a square")
	}
	if !L.ProbablyPrime(32) || !P.ProbablyPrime(32) {
		return fmt.Errorf("l or p not prime")
	}
	B := Base()
	bx, _ := new(big.Int).SetString("15112221349535400772501151409588531511454012693041857206046113283949847762202", 10)
	by, _ := new(big.Int).SetString("46316835694926478169428394003475163141307993866256225615783033603165251855960", 10)
	if B.X.Cmp(bx) != 0 || B.Y.Cmp(by) != 0 {
		return fmt.Errorf("base point mismatch")
	}
	if !OnCurve(B) {
		return fmt.Errorf("base not on curve")
	}
	if !Mul(L, B).Equal(Identity()) {
		return fmt.Errorf("[l]B != O")
	}
	if Mul(big.NewInt(8), B).Equal(Identity()) {
		return fmt.Errorf("[8]B == O")
	}
	// RFC 7748: u(B) = 9
	m := Montgomery(B)
	if m[0] != 9 {
		return fmt.Errorf("montgomery u(B) != 9")
	}
	for i := 1; i < 32; i++ {
		if m[i] != 0 {
			return fmt.Errorf("montgomery u(B) != 9")
		}
	}
	// RFC 8032 test 1 public key: [clamp(sha512(sk)[:32])]B; we check the simpler [2]B doubling twice
	b2 := Add(B, B)
	if !Mul(Two, B).Equal(b2) || !OnCurve(b2) {
		return fmt.Errorf("doubling mismatch")
	}
	for _, t := range Torsion() {
		if !OnCurve(t) || !Mul(big.NewInt(8), t).Equal(Identity()) {
			return fmt.Errorf("torsion point wrong")
		}
	}
	if len(Torsion()) != 8 {
		return fmt.Errorf("torsion count")
	}
	return nil
}

var torsionOnce sync.Once
var torsion []Pt

// Torsion returns E[8] in the order [0]T8 .. [7]T8 for a fixed generator T8,
// found by the model itself: T8 = [l]Q for the first small y that decodes to
// a point whose [l]-multiple has order 8.
func Torsion() []Pt {
	torsionOnce.Do(func() {
		for yv := int64(2); ; yv++ {
			e := LE32(big.NewInt(yv))
			q, ok := Decode(e[:])
			if !ok {
				continue
			}
			t := Mul(L, q)
			t4 := Mul(big.NewInt(4), t)
			if t4.Equal(Identity()) {
				continue // order divides 4
			}
			cur := Identity()
			for i := 0; i < 8; i++ {
				torsion = append(torsion, cur)
				cur = Add(cur, t)
			}
			return
		}
	})
	return torsion
}
