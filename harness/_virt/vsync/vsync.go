// Package vsync replaces the standard sync package in the scheduling build
// (injected with -overlay; not part of the repository). Each operation is a
// scheduling point of the controlled scheduler and a happens-before edge.
// Once follows the structure of the standard library's implementation
// (atomic fast path, mutex, re-check, store after f).
package vsync

import (
	"fmt"
	"reflect"

	"filippo.io/edwards25519/vsched"
	"filippo.io/edwards25519/vsync/atomic"
)

type Mutex struct {
	locked bool
	vc     vsched.VC
}

func (m *Mutex) Lock() {
	vsched.Point("lock", "mutex")
	vsched.Block("lock", "mutex", func() bool { return m.locked })
	m.locked = true
	vsched.Acquire(&m.vc)
}

func (m *Mutex) TryLock() bool {
	vsched.Point("trylock", "mutex")
	if m.locked {
		return false
	}
	m.locked = true
	vsched.Acquire(&m.vc)
	return true
}

func (m *Mutex) Unlock() {
	vsched.Point("unlock", "mutex")
	if !m.locked {
		panic("vsync: unlock of unlocked mutex")
	}
	vsched.Release(&m.vc)
	m.locked = false
	// other threads may observe the released state before this one goes on
	// with work the scheduler cannot see
	vsched.Point("after-release", "mutex")
}

type Locker interface {
	Lock()
	Unlock()
}

// RWMutex: any number of readers or one writer. (Writer preference of the
// real implementation - a waiting writer blocks new readers - is not modelled:
// every behaviour of the real lock is among the explored ones.)
type RWMutex struct {
	writer  bool
	readers int
	vc      vsched.VC // released by writers (acquired by everybody)
	rvc     vsched.VC // released by readers (acquired by writers)
}

func (rw *RWMutex) Lock() {
	vsched.Point("lock", "rwmutex")
	vsched.Block("lock", "rwmutex", func() bool { return rw.writer || rw.readers > 0 })
	rw.writer = true
	vsched.Acquire(&rw.vc)
	vsched.Acquire(&rw.rvc)
}

func (rw *RWMutex) Unlock() {
	vsched.Point("unlock", "rwmutex")
	if !rw.writer {
		panic("vsync: Unlock of unlocked RWMutex")
	}
	vsched.Release(&rw.vc)
	rw.writer = false
	vsched.Point("after-release", "rwmutex")
}

func (rw *RWMutex) RLock() {
	vsched.Point("rlock", "rwmutex")
	vsched.Block("rlock", "rwmutex", func() bool { return rw.writer })
	rw.readers++
	vsched.Acquire(&rw.vc)
}

func (rw *RWMutex) RUnlock() {
	vsched.Point("runlock", "rwmutex")
	if rw.readers <= 0 {
		panic("vsync: RUnlock of unlocked RWMutex")
	}
	vsched.Release(&rw.rvc)
	rw.readers--
	vsched.Point("after-release", "rwmutex")
}

type Once struct {
	done atomic.Uint32
	m    Mutex
}

func (o *Once) Do(f func()) {
	register(o)
	if o.done.Load() == 0 {
		o.doSlow(f)
	}
}

func (o *Once) doSlow(f func()) {
	o.m.Lock()
	defer o.m.Unlock()
	if o.done.Load() == 0 {
		defer o.done.Store(1)
		f()
	}
}

// A Once may live where the generated snapshot of package-level variables
// cannot reach it: inside an OnceFunc / OnceValue closure, or in a struct
// captured by a hand-written lazy-initialisation closure. Every Once is
// therefore registered when it is first used, and the explorer puts all of
// them back into their cold state: the state recorded by SnapshotRegistered
// for those already used by then (package initialisation), the zero state for
// the others.
var (
	registered []*Once
	regSet     = map[*Once]bool{}
	coldState  = map[*Once]Once{}
)

func register(o *Once) {
	if !regSet[o] {
		regSet[o] = true
		registered = append(registered, o)
	}
}

// SnapshotRegistered records the present state of every Once used so far as
// its cold state.
func SnapshotRegistered() {
	for _, o := range registered {
		coldState[o] = *o
	}
}

// RegisteredState serialises the registered Once objects (for state keys).
func RegisteredState() []byte {
	var b []byte
	for _, o := range registered {
		b = append(b, fmt.Sprint(*o)...) // raw fields: no scheduling point
	}
	return b
}

// ResetRegistered returns every registered Once to its cold state.
func ResetRegistered() {
	for _, o := range registered {
		if c, ok := coldState[o]; ok {
			*o = c
		} else {
			*o = Once{}
		}
	}
}

func OnceFunc(f func()) func() {
	once := new(Once)
	register(once)
	return func() { once.Do(f) }
}

func OnceValue[T any](f func() T) func() T {
	once := new(Once)
	register(once)
	var v T
	return func() T {
		once.Do(func() { v = f() })
		return v
	}
}

func OnceValues[T1, T2 any](f func() (T1, T2)) func() (T1, T2) {
	once := new(Once)
	register(once)
	var v1 T1
	var v2 T2
	return func() (T1, T2) {
		once.Do(func() { v1, v2 = f() })
		return v1, v2
	}
}

// Pool: a mutex-protected free list (every Get/Put is a scheduling point and
// a happens-before edge, as for the real sync.Pool).
type Pool struct {
	New   func() any
	m     Mutex
	items []any
	owned map[any]int // pointer-like objects handed out and not yet returned -> owning thread
}

func poolKey(x any) (any, bool) {
	if x == nil {
		return nil, false
	}
	switch reflect.TypeOf(x).Kind() {
	case reflect.Pointer, reflect.UnsafePointer, reflect.Chan, reflect.Map:
		return x, true
	}
	return nil, false
}

func (p *Pool) Get() any {
	p.m.Lock()
	var x any
	if n := len(p.items); n > 0 {
		x = p.items[n-1]
		p.items = p.items[:n-1]
	} else if p.New != nil {
		x = p.New()
	}
	if k, ok := poolKey(x); ok {
		if p.owned == nil {
			p.owned = map[any]int{}
		}
		if other, dup := p.owned[k]; dup {
			vsched.Fault(fmt.Sprintf("sync.Pool handed the same object to two goroutines at once (T%d still holds it, now also T%d): it was put back more than once or used after Put", other, vsched.CurID()))
		}
		p.owned[k] = vsched.CurID()
	}
	p.m.Unlock()
	return x
}

func (p *Pool) Put(x any) {
	p.m.Lock()
	if k, ok := poolKey(x); ok && p.owned != nil {
		delete(p.owned, k)
	}
	p.items = append(p.items, x)
	p.m.Unlock()
}

type WaitGroup struct {
	n  int
	vc vsched.VC
}

func (wg *WaitGroup) Add(d int) {
	vsched.Point("wg-add", "wg")
	wg.n += d
	if d < 0 {
		vsched.Release(&wg.vc)
	}
}
func (wg *WaitGroup) Done() { wg.Add(-1) }
func (wg *WaitGroup) Wait() {
	vsched.Point("wg-wait", "wg")
	vsched.Block("wg-wait", "wg", func() bool { return wg.n > 0 })
	vsched.Acquire(&wg.vc)
}

// RLocker returns a Locker whose Lock/Unlock are rw's RLock/RUnlock.
func (rw *RWMutex) RLocker() Locker { return rlocker{rw} }

type rlocker struct{ rw *RWMutex }

func (r rlocker) Lock()   { r.rw.RLock() }
func (r rlocker) Unlock() { r.rw.RUnlock() }

func (rw *RWMutex) TryLock() bool {
	vsched.Point("trylock", "rwmutex")
	if rw.writer || rw.readers > 0 {
		return false
	}
	rw.writer = true
	vsched.Acquire(&rw.vc)
	vsched.Acquire(&rw.rvc)
	return true
}

func (rw *RWMutex) TryRLock() bool {
	vsched.Point("tryrlock", "rwmutex")
	if rw.writer {
		return false
	}
	rw.readers++
	vsched.Acquire(&rw.vc)
	return true
}

// Go is WaitGroup.Go of newer toolchains.
func (wg *WaitGroup) Go(f func()) {
	wg.Add(1)
	vsched.Go(func() {
		defer wg.Done()
		f()
	})
}

// Cond: Wait releases L, blocks until a later Signal/Broadcast and re-acquires L.
type Cond struct {
	L       Locker
	gen     int
	waiters int
	vc      vsched.VC
}

func NewCond(l Locker) *Cond { return &Cond{L: l} }

func (c *Cond) Wait() {
	my := c.gen
	c.waiters++
	c.L.Unlock()
	vsched.Block("cond-wait", "cond", func() bool { return c.gen == my })
	vsched.Acquire(&c.vc)
	c.waiters--
	c.L.Lock()
}

func (c *Cond) Signal() { c.Broadcast() } // waking more waiters than required is allowed (spurious wake-ups)
func (c *Cond) Broadcast() {
	vsched.Point("cond-broadcast", "cond")
	vsched.Release(&c.vc)
	c.gen++
}

// Map is sync.Map with one scheduling point per operation.
type Map struct {
	mu Mutex
	m  map[any]any
}

func (m *Map) Load(k any) (any, bool) {
	m.mu.Lock()
	defer m.mu.Unlock()
	v, ok := m.m[k]
	return v, ok
}
func (m *Map) Store(k, v any) {
	m.mu.Lock()
	defer m.mu.Unlock()
	if m.m == nil {
		m.m = map[any]any{}
	}
	m.m[k] = v
}
func (m *Map) LoadOrStore(k, v any) (any, bool) {
	m.mu.Lock()
	defer m.mu.Unlock()
	if old, ok := m.m[k]; ok {
		return old, true
	}
	if m.m == nil {
		m.m = map[any]any{}
	}
	m.m[k] = v
	return v, false
}
func (m *Map) LoadAndDelete(k any) (any, bool) {
	m.mu.Lock()
	defer m.mu.Unlock()
	v, ok := m.m[k]
	delete(m.m, k)
	return v, ok
}
func (m *Map) Delete(k any) { m.LoadAndDelete(k) }
func (m *Map) Swap(k, v any) (any, bool) {
	m.mu.Lock()
	defer m.mu.Unlock()
	old, ok := m.m[k]
	if m.m == nil {
		m.m = map[any]any{}
	}
	m.m[k] = v
	return old, ok
}
func (m *Map) CompareAndSwap(k, old, new any) bool {
	m.mu.Lock()
	defer m.mu.Unlock()
	if cur, ok := m.m[k]; ok && cur == old {
		m.m[k] = new
		return true
	}
	return false
}
func (m *Map) CompareAndDelete(k, old any) bool {
	m.mu.Lock()
	defer m.mu.Unlock()
	if cur, ok := m.m[k]; ok && cur == old {
		delete(m.m, k)
		return true
	}
	return false
}
func (m *Map) Range(f func(k, v any) bool) {
	m.mu.Lock()
	snap := make([][2]any, 0, len(m.m))
	for k, v := range m.m {
		snap = append(snap, [2]any{k, v})
	}
	m.mu.Unlock()
	for _, kv := range snap {
		if !f(kv[0], kv[1]) {
			return
		}
	}
}
func (m *Map) Clear() {
	m.mu.Lock()
	defer m.mu.Unlock()
	m.m = nil
}
