package checks

import (
	"bytes"
	"crypto/sha256"
	"fmt"
	"math/big"
	"strings"
	"sync"
	"unsafe"

	"filippo.io/edwards25519"
	"filippo.io/edwards25519/field"
	"verif/harness/alpha"
	"verif/harness/core"
	"verif/harness/ref"
)

// C19 - returned values are fresh; operations are pure functions of their arguments.
//
// Every sequence (to a depth bound) of accessor/constructor calls, scribbles
// over previously returned values and heavy operations is executed from a
// fresh set of source values; after every step the invariants are evaluated.
// Successors are built by replaying the history (live objects are not cloned:
// sharing between a returned value and package state is exactly what is being
// looked for).

type c19Handle struct {
	kind string // "point", "scalar", "elems", "bytes"
	p    *edwards25519.Point
	s    *edwards25519.Scalar
	e    [4]*field.Element
	b    []byte
	want []byte // observable content when returned
	live bool   // false once scribbled
}

type c19World struct {
	P    [2]edwards25519.Point
	S    edwards25519.Scalar
	E    field.Element
	praw [2]alpha.RawPoint
	sraw alpha.RawScalar
	eraw Limbs
	H    []*c19Handle
}

func c19Sources() (ref.Pt, ref.Pt) {
	B := ref.Base()
	return ref.Add(ref.Torsion()[1], ref.Mul(alpha.GenericScalar, B)), ref.Mul(big.NewInt(3), B)
}

func newC19World() *c19World {
	w := &c19World{}
	a, b := c19Sources()
	w.P[0] = *alpha.MakePoint(a, 6)
	w.P[1] = *alpha.MakePoint(b, 0)
	w.S = *mkScalar(alpha.GenericScalar)
	w.E = alpha.ElemRecipes(alpha.FieldValues(true)[13])[5]
	for i := range w.P {
		w.praw[i] = alpha.PointRaw(&w.P[i])
	}
	w.sraw = alpha.ScalarRaw(&w.S)
	w.eraw = alpha.LimbsOf(&w.E)
	return w
}

func (h *c19Handle) observe() []byte {
	switch h.kind {
	case "point":
		return func() (out []byte) {
			defer func() {
				if recover() != nil {
					out = []byte("panic")
				}
			}()
			return h.p.Bytes()
		}()
	case "scalar":
		return h.s.Bytes()
	case "elems":
		var o []byte
		for _, e := range h.e {
			o = append(o, e.Bytes()...)
		}
		return o
	default:
		return append([]byte{}, h.b...)
	}
}

type memRange struct {
	lo, hi uintptr
	what   string
}

func (h *c19Handle) ranges(name string) []memRange {
	switch h.kind {
	case "point":
		p := uintptr(unsafe.Pointer(h.p))
		return []memRange{{p, p + unsafe.Sizeof(*h.p), name}}
	case "scalar":
		p := uintptr(unsafe.Pointer(h.s))
		return []memRange{{p, p + unsafe.Sizeof(*h.s), name}}
	case "elems":
		var r []memRange
		for i, e := range h.e {
			p := uintptr(unsafe.Pointer(e))
			r = append(r, memRange{p, p + unsafe.Sizeof(*e), fmt.Sprintf("%s[%d]", name, i)})
		}
		return r
	default:
		if cap(h.b) == 0 {
			return nil
		}
		p := uintptr(unsafe.Pointer(unsafe.SliceData(h.b)))
		return []memRange{{p, p + uintptr(cap(h.b)), name}}
	}
}

func (w *c19World) sourceRanges() []memRange {
	var r []memRange
	for i := range w.P {
		p := uintptr(unsafe.Pointer(&w.P[i]))
		r = append(r, memRange{p, p + unsafe.Sizeof(w.P[i]), fmt.Sprintf("source P%d", i)})
	}
	p := uintptr(unsafe.Pointer(&w.S))
	r = append(r, memRange{p, p + unsafe.Sizeof(w.S), "source S"})
	p = uintptr(unsafe.Pointer(&w.E))
	r = append(r, memRange{p, p + unsafe.Sizeof(w.E), "source E"})
	return r
}

func overlap(a, b memRange) bool { return a.lo < b.hi && b.lo < a.hi }

// ---- the probe battery: a fixed program over fixed argument values whose
// outputs must be byte-identical after every history ----

func c19Battery() [32]byte {
	h := sha256.New()
	put := func(b []byte) { h.Write(b); h.Write([]byte{0xfe}) }
	g := mkScalar(alpha.GenericScalar)
	g2 := mkScalar(ref.SRed(new(big.Int).Lsh(alpha.GenericScalar, 7)))
	eight := mkScalar(big.NewInt(8))
	a, b := c19Sources()
	Q, R := alpha.MakePoint(a, 6), alpha.MakePoint(b, 0)
	put(edwards25519.NewIdentityPoint().Bytes())
	put(edwards25519.NewGeneratorPoint().Bytes())
	put(edwards25519.NewScalar().Bytes())
	// multi-scalar calls in increasing size (a stale larger scratch from an
	// earlier call must not be able to hide behind the battery's own order)
	put(new(edwards25519.Point).MultiScalarMult(nil, nil).Bytes())
	put(new(edwards25519.Point).VarTimeMultiScalarMult(nil, nil).Bytes())
	put(new(edwards25519.Point).MultiScalarMult([]*edwards25519.Scalar{g2}, []*edwards25519.Point{R}).Bytes())
	put(new(edwards25519.Point).VarTimeMultiScalarMult([]*edwards25519.Scalar{g2}, []*edwards25519.Point{R}).Bytes())
	put(new(edwards25519.Point).ScalarBaseMult(g).Bytes())
	put(new(edwards25519.Point).ScalarMult(g, Q).Bytes())
	put(new(edwards25519.Point).VarTimeDoubleScalarBaseMult(g, Q, g2).Bytes())
	// receivers with different previous contents must give identical results
	for _, recv := range []*edwards25519.Point{new(edwards25519.Point), edwards25519.NewIdentityPoint(), alpha.MakePoint(b, 5)} {
		put(recv.MultiScalarMult([]*edwards25519.Scalar{g, eight}, []*edwards25519.Point{Q, R}).Bytes())
	}
	for _, recv := range []*edwards25519.Point{new(edwards25519.Point), alpha.MakePoint(a, 3)} {
		put(recv.VarTimeMultiScalarMult([]*edwards25519.Scalar{g, eight}, []*edwards25519.Point{Q, R}).Bytes())
		put(recv.ScalarMult(g2, R).Bytes())
		put(recv.ScalarBaseMult(g2).Bytes())
		put(recv.VarTimeDoubleScalarBaseMult(eight, R, g).Bytes())
	}
	three := []*edwards25519.Scalar{g, eight, g2}
	threeP := []*edwards25519.Point{Q, R, Q}
	put(new(edwards25519.Point).MultiScalarMult(three, threeP).Bytes())
	put(new(edwards25519.Point).VarTimeMultiScalarMult(three, threeP).Bytes())
	put(new(edwards25519.Point).Add(Q, R).Bytes())
	put(new(edwards25519.Point).Subtract(Q, R).Bytes())
	put(new(edwards25519.Point).Negate(Q).Bytes())
	put(new(edwards25519.Point).MultByCofactor(Q).Bytes())
	put([]byte{byte(Q.Equal(R)), byte(Q.Equal(Q))})
	put(Q.BytesMontgomery())
	// special values are where a shared "fast path" result would sit
	for _, sp := range []ref.Pt{ref.Identity(), ref.Torsion()[4], ref.Torsion()[2]} {
		for _, form := range []int{0, 3} {
			p := alpha.MakePoint(sp, form)
			put(p.Bytes())
			put(p.BytesMontgomery())
		}
	}
	X, Y, Z, T := Q.ExtendedCoordinates()
	put(X.Bytes())
	put(Y.Bytes())
	put(Z.Bytes())
	put(T.Bytes())
	e := ref.Encode(a)
	if p, err := new(edwards25519.Point).SetBytes(e[:]); err == nil {
		put(p.Bytes())
	} else {
		put([]byte("err"))
	}
	if p, err := new(edwards25519.Point).SetExtendedCoordinates(X, Y, Z, T); err == nil {
		put(p.Bytes())
	} else {
		put([]byte("err"))
	}
	// scalars
	put(new(edwards25519.Scalar).Add(g, g2).Bytes())
	put(new(edwards25519.Scalar).Subtract(g, g2).Bytes())
	put(new(edwards25519.Scalar).Multiply(g, g2).Bytes())
	put(new(edwards25519.Scalar).MultiplyAdd(g, g2, eight).Bytes())
	put(new(edwards25519.Scalar).Negate(g).Bytes())
	put(new(edwards25519.Scalar).Invert(g).Bytes())
	wide := bytes.Repeat([]byte{0xa7}, 64)
	if s, err := new(edwards25519.Scalar).SetUniformBytes(wide); err == nil {
		put(s.Bytes())
	}
	if s, err := new(edwards25519.Scalar).SetBytesWithClamping(wide[:32]); err == nil {
		put(s.Bytes())
	}
	if s, err := new(edwards25519.Scalar).SetCanonicalBytes(g.Bytes()); err == nil {
		put(s.Bytes())
	}
	// field
	fa, fb := alpha.ElemCanon(alpha.FieldValues(true)[13]), alpha.ElemCanon(alpha.FieldValues(true)[14])
	put(new(field.Element).Add(&fa, &fb).Bytes())
	put(new(field.Element).Subtract(&fa, &fb).Bytes())
	put(new(field.Element).Multiply(&fa, &fb).Bytes())
	put(new(field.Element).Square(&fa).Bytes())
	put(new(field.Element).Negate(&fa).Bytes())
	put(new(field.Element).Invert(&fa).Bytes())
	put(new(field.Element).Pow22523(&fa).Bytes())
	put(new(field.Element).Absolute(&fa).Bytes())
	put(new(field.Element).Mult32(&fa, 121666).Bytes())
	r, was := new(field.Element).SqrtRatio(&fa, &fb)
	put(append(r.Bytes(), byte(was)))
	put(new(field.Element).Select(&fa, &fb, 1).Bytes())
	put(new(field.Element).Zero().Bytes())
	put(new(field.Element).One().Bytes())
	if v, err := new(field.Element).SetWideBytes(wide); err == nil {
		put(v.Bytes())
	}
	put([]byte{byte(fa.Equal(&fb)), byte(fa.IsNegative())})
	var out [32]byte
	copy(out[:], h.Sum(nil))
	return out
}

var c19Baseline = sync.OnceValue(c19Battery)

func c19Ops(tier string) []string {
	ops := []string{
		"call NewIdentityPoint", "call NewGeneratorPoint", "call NewScalar",
		"call ExtendedCoordinates 0", "call ExtendedCoordinates 1", "call Bytes 0", "call Bytes 1", "call BytesMontgomery 0",
		"call ScalarBytes", "call ElementBytes",
		"call ZeroScalarBytes", "call ZeroElementBytes", "call IdentityBytes",
		"call IdentityBytesMontgomery", "call Order2Bytes", "call Order2BytesMontgomery", "call IdentityExtendedCoordinates",
	}
	for slot := 0; slot < 2; slot++ {
		for mode := 0; mode < 3; mode++ {
			ops = append(ops, fmt.Sprintf("scribble %d %d", slot, mode))
		}
	}
	ops = append(ops, "heavy ScalarBaseMult", "heavy VarTimeDouble", "heavy MultiScalarMult", "heavy decode-add", "heavy VarTimeMultiScalarMult5", "heavy MultiScalarMult5", "heavy rejected-setter-calls")
	return ops
}

func (w *c19World) step(op string) *core.Fail {
	f := strings.Fields(op)
	switch f[0] {
	case "call":
		h := &c19Handle{live: true}
		var exp []byte
		a, b := c19Sources()
		srcPt := []ref.Pt{a, b}
		switch f[1] {
		case "NewIdentityPoint":
			h.kind, h.p = "point", edwards25519.NewIdentityPoint()
			e := ref.Encode(ref.Identity())
			exp = e[:]
		case "NewGeneratorPoint":
			h.kind, h.p = "point", edwards25519.NewGeneratorPoint()
			e := ref.Encode(ref.Base())
			exp = e[:]
		case "NewScalar":
			h.kind, h.s = "scalar", edwards25519.NewScalar()
			exp = make([]byte, 32)
		case "ExtendedCoordinates":
			i := atoi(f[2])
			h.kind = "elems"
			h.e[0], h.e[1], h.e[2], h.e[3] = w.P[i].ExtendedCoordinates()
			src := alpha.PointLimbs(&w.P[i])
			for k := 0; k < 4; k++ {
				var l Limbs
				copy(l[:], src[5*k:5*k+5])
				le := ref.LE32(ref.FRed(alpha.LimbValue(l)))
				exp = append(exp, le[:]...)
			}
		case "Bytes":
			i := atoi(f[2])
			h.kind, h.b = "bytes", w.P[i].Bytes()
			e := ref.Encode(srcPt[i])
			exp = e[:]
		case "BytesMontgomery":
			i := atoi(f[2])
			h.kind, h.b = "bytes", w.P[i].BytesMontgomery()
			e := ref.Montgomery(srcPt[i])
			exp = e[:]
		case "ScalarBytes":
			h.kind, h.b = "bytes", w.S.Bytes()
			e := ref.LE32(alpha.GenericScalar)
			exp = e[:]
		case "ElementBytes":
			h.kind, h.b = "bytes", w.E.Bytes()
			e := ref.LE32(alpha.FieldValues(true)[13])
			exp = e[:]
		case "ZeroScalarBytes": // special values are where a shared "fast path" buffer would sit
			h.kind, h.b = "bytes", new(edwards25519.Scalar).Subtract(&w.S, &w.S).Bytes()
			exp = make([]byte, 32)
		case "ZeroElementBytes":
			h.kind, h.b = "bytes", new(field.Element).Subtract(&w.E, &w.E).Bytes()
			exp = make([]byte, 32)
		case "IdentityBytes":
			h.kind, h.b = "bytes", new(edwards25519.Point).Subtract(&w.P[1], &w.P[1]).Bytes()
			e := ref.Encode(ref.Identity())
			exp = e[:]
		case "IdentityBytesMontgomery": // u of the identity is the documented special case 1/0 = 0
			h.kind, h.b = "bytes", new(edwards25519.Point).Subtract(&w.P[1], &w.P[1]).BytesMontgomery()
			e := ref.Montgomery(ref.Identity())
			exp = e[:]
		case "Order2Bytes", "Order2BytesMontgomery": // (0,-1): x = 0 and u = 0
			t2 := alpha.MakePoint(ref.Torsion()[4], 2)
			if f[1] == "Order2Bytes" {
				h.kind, h.b = "bytes", t2.Bytes()
				e := ref.Encode(ref.Torsion()[4])
				exp = e[:]
			} else {
				h.kind, h.b = "bytes", t2.BytesMontgomery()
				e := ref.Montgomery(ref.Torsion()[4])
				exp = e[:]
			}
		case "IdentityExtendedCoordinates":
			id := edwards25519.NewIdentityPoint()
			h.kind = "elems"
			h.e[0], h.e[1], h.e[2], h.e[3] = id.ExtendedCoordinates()
			for _, v := range []int64{0, 1, 1, 0} {
				le := ref.LE32(big.NewInt(v))
				exp = append(exp, le[:]...)
			}
		}
		h.want = h.observe()
		if !bytes.Equal(h.want, exp) {
			return core.Failf("%s returned %x, expected %x", op, h.want, exp)
		}
		// freshness: disjoint from sources and from every earlier returned value
		nr := h.ranges("new result of " + op)
		others := w.sourceRanges()
		for i, o := range w.H {
			others = append(others, o.ranges(fmt.Sprintf("earlier result #%d", i))...)
		}
		for _, a := range nr {
			for _, b := range others {
				if overlap(a, b) {
					return core.Failf("%s shares memory with %s", a.what, b.what)
				}
			}
			for _, b := range nr {
				if a != b && overlap(a, b) {
					return core.Failf("%s overlaps %s", a.what, b.what)
				}
			}
		}
		w.H = append(w.H, h)
	case "scribble":
		slot, mode := atoi(f[1]), atoi(f[2])
		if slot >= len(w.H) {
			return nil
		}
		h := w.H[len(w.H)-1-slot]
		h.live = false
		_, bpt := c19Sources()
		other := alpha.MakePoint(bpt, 5)
		switch h.kind {
		case "point":
			switch mode {
			case 0:
				h.p.Set(other)
			case 1:
				func() {
					defer func() { recover() }()
					h.p.Add(h.p, other)
				}()
			default:
				*h.p = edwards25519.Point{}
			}
		case "scalar":
			switch mode {
			case 0:
				h.s.Set(mkScalar(big.NewInt(77)))
			case 1:
				h.s.Add(h.s, mkScalar(alpha.GenericScalar))
			default:
				h.s.Subtract(h.s, mkScalar(big.NewInt(1)))
			}
		case "elems":
			for i, e := range h.e {
				switch mode {
				case 0:
					e.One()
				case 1:
					e.Add(e, e)
					e.Mult32(e, uint32(7+i))
				default:
					*e = field.Element{}
				}
			}
		default:
			full := h.b[:cap(h.b)]
			for i := range full {
				switch mode {
				case 0:
					full[i] = 0xff
				case 1:
					full[i] = byte(i*7 + 1)
				default:
					full[i] = 0
				}
			}
		}
	case "heavy":
		g := mkScalar(alpha.GenericScalar)
		switch f[1] {
		case "ScalarBaseMult":
			new(edwards25519.Point).ScalarBaseMult(g)
		case "VarTimeDouble":
			new(edwards25519.Point).VarTimeDoubleScalarBaseMult(g, &w.P[0], g)
		case "MultiScalarMult":
			r := alpha.MakePoint(ref.Base(), 3)
			r.MultiScalarMult([]*edwards25519.Scalar{g, &w.S}, []*edwards25519.Point{&w.P[0], &w.P[1]})
		case "rejected-setter-calls":
			// every fallible setter on inputs it must reject (too short, too
			// long, out of range): a rejected call must leave nothing behind
			long := bytes.Repeat([]byte{0xd7}, 97)
			for _, n := range []int{0, 31, 33, 63, 65, 97} {
				new(edwards25519.Scalar).SetBytesWithClamping(long[:n])
				new(edwards25519.Scalar).SetUniformBytes(long[:n])
				new(edwards25519.Scalar).SetCanonicalBytes(long[:n])
				new(edwards25519.Point).SetBytes(long[:n])
				new(field.Element).SetBytes(long[:n])
				new(field.Element).SetWideBytes(long[:n])
			}
			new(edwards25519.Scalar).SetCanonicalBytes(bytes.Repeat([]byte{0xff}, 32))
			new(edwards25519.Point).SetBytes(bytes.Repeat([]byte{0x02}, 32))
			z := new(field.Element)
			new(edwards25519.Point).SetExtendedCoordinates(z, z, z, z)
		case "VarTimeMultiScalarMult5", "MultiScalarMult5":
			// a call with more terms than any call of the probe battery
			sc := []*edwards25519.Scalar{g, &w.S, g, &w.S, g}
			ps := []*edwards25519.Point{&w.P[0], &w.P[1], &w.P[1], &w.P[0], &w.P[0]}
			if f[1] == "MultiScalarMult5" {
				new(edwards25519.Point).MultiScalarMult(sc, ps)
			} else {
				new(edwards25519.Point).VarTimeMultiScalarMult(sc, ps)
			}
		default:
			e := ref.Encode(ref.Base())
			p, _ := new(edwards25519.Point).SetBytes(e[:])
			p.Add(p, &w.P[1])
			p.MultByCofactor(p)
		}
	}
	// invariants after the step
	for i := range w.P {
		if alpha.PointRaw(&w.P[i]) != w.praw[i] {
			// a representation-only rewrite by an accessor is tolerated here
			// (it matters for C18); the value must be intact
			a, b := c19Sources()
			if f := pointMatches(&w.P[i], []ref.Pt{a, b}[i]); f != nil {
				return core.Failf("after %q the source point P%d changed: %s", op, i, f.Msg)
			}
			w.praw[i] = alpha.PointRaw(&w.P[i])
		}
	}
	if alpha.ScalarRaw(&w.S) != w.sraw || alpha.LimbsOf(&w.E) != w.eraw {
		// representation-only rewrites are C18's business; the values must be intact
		se, ee := ref.LE32(alpha.GenericScalar), ref.LE32(alpha.FieldValues(true)[13])
		if !bytes.Equal(w.S.Bytes(), se[:]) || !bytes.Equal(w.E.Bytes(), ee[:]) {
			return core.Failf("after %q the source scalar/element changed value", op)
		}
		w.sraw, w.eraw = alpha.ScalarRaw(&w.S), alpha.LimbsOf(&w.E)
	}
	for i, h := range w.H {
		if h.live {
			if now := h.observe(); !bytes.Equal(now, h.want) {
				return core.Failf("after %q an earlier returned value (#%d, %s) changed from %x to %x", op, i, h.kind, h.want, now)
			}
		}
	}
	if got := c19Battery(); got != c19Baseline() {
		return core.Failf("after %q the probe battery (fixed calls on fixed arguments) no longer returns the same bytes: package state or history leaked into results", op)
	}
	return nil
}

type c19Case struct {
	Ops []string `json:"ops"`
}

var subC19 = core.NewSub("C19/scribble-sequences", func(wk *core.Worker, c c19Case) *core.Fail {
	c19Baseline() // reference outputs are taken before the history under test runs
	w := newC19World()
	for i, op := range c.Ops {
		if f := w.step(op); f != nil {
			return core.Failf("step %d: %s", i, f.Msg)
		}
	}
	wk.Distinct("nontrivial:handle-configurations", []byte(func() string {
		var s []string
		for _, h := range w.H {
			s = append(s, fmt.Sprint(h.kind, h.live))
		}
		return strings.Join(s, ",")
	}()))
	return nil
})

// purity across receivers / histories for every multiplication routine
var subC19Recv = core.NewSub("C19/receiver-history", func(wk *core.Worker, c smCase) *core.Fail {
	// the same call into receivers with different histories must give identical bytes
	var outs [][]byte
	for recv := 0; recv < 4; recv++ {
		cc := c
		cc.Recv = recv
		q := cc.Q.point()
		r := smRecv(recv, q)
		k := scalarOf(cc.K)
		switch cc.Routine {
		case "ScalarMult":
			r.ScalarMult(k, q)
		case "ScalarBaseMult":
			r.ScalarBaseMult(k)
		case "MultiScalarMult":
			r.MultiScalarMult([]*edwards25519.Scalar{k}, []*edwards25519.Point{q})
		case "VarTimeMultiScalarMult":
			r.VarTimeMultiScalarMult([]*edwards25519.Scalar{k}, []*edwards25519.Point{q})
		case "VarTimeDoubleScalarBaseMult":
			r.VarTimeDoubleScalarBaseMult(k, q, scalarOf(cc.K2))
		}
		outs = append(outs, r.Bytes())
	}
	for i := 1; i < len(outs); i++ {
		if !bytes.Equal(outs[i], outs[0]) {
			return core.Failf("%s(k=%s,Q=%s): result depends on the receiver's previous value: %x (zero value) vs %x (receiver kind %d)", c.Routine, c.K, c.Q.Enc, outs[0], outs[i], i)
		}
	}
	wk.Distinct("nontrivial:results", outs[0])
	return nil
})

// ---- confusable histories: a call on A1 followed by the same call on A2,
// where A2 is a different point that shares part of A1's raw representation
// (sign-flip partner), or lives at the same address as A1 did, or is the
// same point in another representation. A memo keyed on anything less than
// the point itself returns A1's answer for A2. Also: the identical call
// repeated on the same slices must give the identical result. ----

type confCase struct {
	Routine string `json:"routine"`
	A1      ptIn   `json:"a1"`
	A2      ptIn   `json:"a2"`
	SameMem bool   `json:"same_memory"` // A2 overwrites the storage that held A1
	K       Hex    `json:"k"`
}

func confCall(routine string, k *edwards25519.Scalar, a *edwards25519.Point, am ref.Pt, kv *big.Int) ([]byte, []byte) {
	B := ref.Base()
	enc := func(p ref.Pt) []byte { e := ref.Encode(p); return e[:] }
	eight := mkScalar(big.NewInt(8))
	zero := edwards25519.NewScalar()
	switch routine {
	case "ScalarMult":
		return new(edwards25519.Point).ScalarMult(k, a).Bytes(), enc(ref.Mul(kv, am))
	case "VarTimeDoubleScalarBaseMult":
		return new(edwards25519.Point).VarTimeDoubleScalarBaseMult(k, a, eight).Bytes(), enc(ref.Add(ref.Mul(kv, am), ref.Mul(big.NewInt(8), B)))
	case "MultiScalarMult":
		return new(edwards25519.Point).MultiScalarMult([]*edwards25519.Scalar{k, eight}, []*edwards25519.Point{a, a}).Bytes(), enc(ref.Add(ref.Mul(kv, am), ref.Mul(big.NewInt(8), am)))
	case "VarTimeMultiScalarMult":
		// a zero scalar in front of non-zero ones, slices reused for a second identical call
		sc := []*edwards25519.Scalar{zero, k, eight}
		ps := []*edwards25519.Point{edwards25519.NewGeneratorPoint(), a, a}
		r1 := new(edwards25519.Point).VarTimeMultiScalarMult(sc, ps).Bytes()
		r2 := new(edwards25519.Point).VarTimeMultiScalarMult(sc, ps).Bytes()
		if !bytes.Equal(r1, r2) {
			return append(r1, r2...), []byte("two identical calls on the same slices must agree")
		}
		return r1, enc(ref.Add(ref.Mul(kv, am), ref.Mul(big.NewInt(8), am)))
	case "Add":
		return new(edwards25519.Point).Add(a, a).Bytes(), enc(ref.Add(am, am))
	case "AddB":
		return new(edwards25519.Point).Add(a, edwards25519.NewGeneratorPoint()).Bytes(), enc(ref.Add(am, B))
	case "Subtract":
		return new(edwards25519.Point).Subtract(edwards25519.NewGeneratorPoint(), a).Bytes(), enc(ref.Sub(B, am))
	case "Negate":
		return new(edwards25519.Point).Negate(a).Bytes(), enc(ref.Neg(am))
	case "MultByCofactor":
		return new(edwards25519.Point).MultByCofactor(a).Bytes(), enc(ref.Mul(big.NewInt(8), am))
	case "Bytes":
		return a.Bytes(), enc(am)
	case "BytesMontgomery":
		m := ref.Montgomery(am)
		return a.BytesMontgomery(), m[:]
	case "EqualB":
		e := byte(0)
		if am.Equal(B) {
			e = 1
		}
		return []byte{byte(a.Equal(edwards25519.NewGeneratorPoint()))}, []byte{e}
	}
	panic("bad routine")
}

var subC19Conf = core.NewSub("C19/confusable-histories", func(w *core.Worker, c confCase) *core.Fail {
	k := scalarOf(c.K)
	kv := ref.FromLE(c.K)
	a1 := c.A1.point()
	// the call under test, on a fresh copy, before any history
	g1, w1 := confCall(c.Routine, k, a1, c.A1.model(), kv)
	if !bytes.Equal(g1, w1) {
		return core.Failf("%s on %s (flip %d): %x want %x", c.Routine, c.A1.Enc, c.A1.Flip, g1, w1)
	}
	var a2 *edwards25519.Point
	if c.SameMem {
		a2 = a1
		a2.Set(c.A2.point())
	} else {
		a2 = c.A2.point()
	}
	g2, w2 := confCall(c.Routine, k, a2, c.A2.model(), kv)
	if !bytes.Equal(g2, w2) {
		return core.Failf("%s on A2=%s (form %d, flip %d) right after the same call on A1=%s (form %d, flip %d; same memory: %v): %x want %x - the result depends on the previous call", c.Routine, c.A2.Enc, c.A2.Form, c.A2.Flip, c.A1.Enc, c.A1.Form, c.A1.Flip, c.SameMem, g2, w2)
	}
	w.Distinct("nontrivial:results", g2)
	return nil
})

func init() { register("C19", "model_checking", runC19) }

func runC19(ctx *core.Ctx) {
	ctx.Rule("all sequences up to the depth bound over an alphabet of 17 constructor/accessor calls (NewIdentityPoint, NewGeneratorPoint, NewScalar, ExtendedCoordinates, Point.Bytes, BytesMontgomery, Scalar.Bytes, Element.Bytes, and the accessors on special values: zero scalar/element, identity, the point of order 2), 6 scribbles (overwrite one of the two most recent returned values through its exported setters / raw bytes up to cap, three modes) and 4 heavy operations; each sequence executed from fresh source values (successor = replay of the history, no cloning). Invariants after every step: source values bit-identical; every unscribbled earlier result unchanged; each new result equals the model and its memory is disjoint from sources and earlier results; a 70-call probe battery over fixed arguments (every operation class, receivers with different histories) returns byte-identical output. states = sequences explored, transitions = steps executed. Plus: every multiplication routine into four receiver histories must give identical bytes; confusable consecutive calls; every byte-input setter fed 20 different values through ONE reused caller buffer (two passes, fresh and used receivers, each previous value decoded again from a fresh slice); 40 (thorough: 72) pairwise distinct points pushed through each of 13 operations with every earlier point asked again after each new one, and multi-scalar calls over all earlier points plus one new point")
	ctx.Assume("package state is observed through behaviour (probe battery) and pointer ranges, not through a memory snapshot of package variables", "workers share the process; a violation corrupting package state may cascade into later sequences of the same run (the first one is reported)")
	ops := c19Ops(ctx.Tier)
	n := len(ops)
	depth := sz(ctx, 3, 3, 4)
	total := 0
	for d, pow := 1, n; d <= depth; d, pow = d+1, pow*n {
		dd, pp := d, pow
		subC19.RunSharded(ctx, pp, func(i int) c19Case {
			seq := make([]string, dd)
			for k := 0; k < dd; k++ {
				seq[k] = ops[i%n]
				i /= n
			}
			return c19Case{seq}
		})
		total += pp * dd
		ctx.AddStates(int64(pp))
	}
	ctx.AddTransitions(int64(total))
	ctx.AddTraces(int64(total))
	ctx.Extra("alphabet", ops)
	ctx.Extra("depth", depth)
	if ctx.InShard() {
		return
	}
	// receiver histories
	var cases []smCase
	S := alpha.Scalars(true)
	pts := alpha.Points(true)
	for i, k := range S {
		if i%sz(ctx, 4, 4, 1) != 0 {
			continue
		}
		q := ptOf(pts[i%len(pts)], []int{0, 6, 5, 3}[i%4])
		for _, r := range []string{"ScalarMult", "ScalarBaseMult", "MultiScalarMult", "VarTimeMultiScalarMult", "VarTimeDoubleScalarBaseMult"} {
			cases = append(cases, smCase{Routine: r, K: le32(k), K2: le32(S[(i+5)%len(S)]), Q: q})
		}
	}
	subC19Recv.RunList(ctx, cases)
	// confusable histories
	var cc []confCase
	routines := []string{"ScalarMult", "VarTimeDoubleScalarBaseMult", "MultiScalarMult", "VarTimeMultiScalarMult", "Add", "AddB", "Subtract", "Negate", "MultByCofactor", "Bytes", "BytesMontgomery", "EqualB"}
	ks := []Hex{le32(big.NewInt(1)), le32(big.NewInt(9)), le32(alpha.GenericScalar)}
	bases := pointIns(true, []int{0, 6})
	for bi, base := range bases {
		if ctx.Quick() && bi%3 != 0 {
			continue
		}
		for _, r := range routines {
			for k := 1; k < len(flipMasks); k++ {
				a2 := base
				a2.Flip = k
				for _, same := range []bool{false, true} {
					cc = append(cc, confCase{r, base, a2, same, ks[(bi+k)%len(ks)]}, confCase{r, a2, base, same, ks[(bi+k)%len(ks)]})
				}
			}
			// same point, other representation; other point, same memory
			other := base
			other.Form = 3
			cc = append(cc, confCase{r, base, other, false, ks[bi%len(ks)]})
			np := bases[(bi+5)%len(bases)]
			cc = append(cc, confCase{r, base, np, true, ks[bi%len(ks)]})
		}
	}
	subC19Conf.RunList(ctx, cc)
	// longer histories: reused input buffers, many distinct points through one operation
	runC19Long(ctx)
}
