// vcheck runs one property check (or replays one violation) against the
// filippo.io/edwards25519 tree this binary was built from.
package main

import (
	"flag"
	"fmt"
	"os"
	"strconv"
	"time"

	"verif/harness/checks"
	"verif/harness/core"
	"verif/harness/ref"
)

func main() {
	prop := flag.String("prop", "", "property id")
	tier := flag.String("tier", "quick", "quick|thorough")
	verif := flag.String("verif", "/verif", "verif directory (evidence, replays, known findings)")
	out := flag.String("out", "", "directory for evidence/ and replays/ (default: the verif directory)")
	replay := flag.String("replay", "", "replay file")
	deadline := flag.Duration("deadline", 0, "internal deadline (0 = none)")
	flag.Parse()
	if err := ref.SelfTest(); err != nil {
		core.InternalError("reference model self-test failed: %v", err)
	}
	checks.VerifDir = *verif
	if *out == "" {
		*out = *verif
	}
	core.OutDir = *out
	if *replay != "" {
		core.Replay(*replay)
	}
	if *prop == "selftest" {
		fmt.Println("selftest ok; subs:", len(core.Subs()))
		return
	}
	c, ok := checks.Registry[*prop]
	if !ok {
		core.InternalError("unknown property %q", *prop)
	}
	seed, _ := strconv.ParseInt(os.Getenv("VERIF_SEED"), 10, 64)
	ctx := core.NewCtx(*prop, *tier, seed, c.Level)
	if *deadline > 0 {
		ctx.Deadline = time.Now().Add(*deadline)
	}
	ctx.InitShard()
	c.Run(ctx)
	ctx.Finish(*verif)
}
