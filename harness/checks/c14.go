package checks

import (
	"bytes"
	"math/big"

	"filippo.io/edwards25519"
	"filippo.io/edwards25519/field"
	"verif/harness/alpha"
	"verif/harness/core"
	"verif/harness/ref"
)

// C14 - failed setters are atomic; successful ones return the receiver.

type setterCase struct {
	Setter string    `json:"setter"`
	In     Hex       `json:"in,omitempty"`
	Quad   [4]elemIn `json:"quad,omitempty"`
	Prior  int       `json:"prior"` // 0 zero value, 1 canonical value, 2 non-trivial representation
}

func priorPoint(k int) *edwards25519.Point {
	switch k {
	case 0:
		return new(edwards25519.Point)
	case 1:
		return observe(alpha.MakePoint(ref.Base(), 0))
	default:
		return observe(alpha.MakePoint(ref.Add(ref.Torsion()[1], ref.Mul(alpha.GenericScalar, ref.Base())), 6))
	}
}

func priorScalar(k int) *edwards25519.Scalar {
	switch k {
	case 0:
		return new(edwards25519.Scalar)
	case 1:
		return mkScalar(big.NewInt(5))
	default:
		// internal (Montgomery) limbs on the corners
		rinv := new(big.Int).ModInverse(new(big.Int).Lsh(big.NewInt(1), 256), ref.L)
		m := new(big.Int).Sub(new(big.Int).Lsh(big.NewInt(1), 200), big.NewInt(1))
		return mkScalar(ref.SMul(m, rinv))
	}
}

func priorElem(k int) field.Element {
	switch k {
	case 0:
		return field.Element{}
	case 1:
		return alpha.ElemCanon(big.NewInt(7))
	default:
		var e field.Element
		e.Mult32(new(field.Element).One(), 0xffffffff)
		e.Mult32(&e, 0xffffffff)
		return e
	}
}

var subC14 = core.NewSub("C14/setters", func(w *core.Worker, c setterCase) *core.Fail {
	in, full := withSlack(c.In)
	var okWant bool
	var failed bool  // implementation reported error
	var retNil bool  // returned value is nil
	var retRecv bool // returned pointer is the receiver
	var changed bool // receiver raw memory changed
	var obsChanged bool
	switch c.Setter {
	case "Point.SetBytes":
		_, okWant = ref.Decode(c.In)
		p := priorPoint(c.Prior)
		raw := alpha.PointRaw(p)
		ret, err := p.SetBytes(in)
		failed, retNil, retRecv = err != nil, ret == nil, ret == p
		changed = alpha.PointRaw(p) != raw
		obsChanged = changed
	case "Point.SetExtendedCoordinates":
		var e [4]field.Element
		var v [4]*big.Int
		for i := range e {
			e[i] = c.Quad[i].elem()
			v[i] = c.Quad[i].value()
		}
		e0 := e
		okWant = ref.ExtendedValid(v[0], v[1], v[2], v[3])
		p := priorPoint(c.Prior)
		raw := alpha.PointRaw(p)
		ret, err := p.SetExtendedCoordinates(&e[0], &e[1], &e[2], &e[3])
		failed, retNil, retRecv = err != nil, ret == nil, ret == p
		changed = alpha.PointRaw(p) != raw
		obsChanged = changed
		if e != e0 {
			return core.Failf("SetExtendedCoordinates modified its arguments")
		}
	case "Scalar.SetCanonicalBytes", "Scalar.SetUniformBytes", "Scalar.SetBytesWithClamping":
		s := priorScalar(c.Prior)
		raw := alpha.ScalarRaw(s)
		before := s.Bytes()
		var ret *edwards25519.Scalar
		var err error
		switch c.Setter {
		case "Scalar.SetCanonicalBytes":
			okWant = len(c.In) == 32 && ref.FromLE(c.In).Cmp(ref.L) < 0
			ret, err = s.SetCanonicalBytes(in)
		case "Scalar.SetUniformBytes":
			okWant = len(c.In) == 64
			ret, err = s.SetUniformBytes(in)
		default:
			okWant = len(c.In) == 32
			ret, err = s.SetBytesWithClamping(in)
		}
		failed, retNil, retRecv = err != nil, ret == nil, ret == s
		changed = alpha.ScalarRaw(s) != raw
		obsChanged = !bytes.Equal(s.Bytes(), before)
	case "Element.SetBytes", "Element.SetWideBytes":
		e := priorElem(c.Prior)
		raw := alpha.LimbsOf(&e)
		before := e.Bytes()
		var ret *field.Element
		var err error
		if c.Setter == "Element.SetBytes" {
			okWant = len(c.In) == 32
			ret, err = e.SetBytes(in)
		} else {
			okWant = len(c.In) == 64
			ret, err = e.SetWideBytes(in)
		}
		failed, retNil, retRecv = err != nil, ret == nil, ret == &e
		changed = alpha.LimbsOf(&e) != raw
		obsChanged = !bytes.Equal(e.Bytes(), before)
	default:
		panic("bad setter")
	}
	if !slackIntact(full, c.In) {
		return core.Failf("%s modified its input slice", c.Setter)
	}
	w.Distinct("nontrivial:outcome", []byte(c.Setter+map[bool]string{true: "/ok", false: "/err"}[okWant]))
	if okWant {
		if failed {
			return core.Failf("%s rejected a valid input (in=%s)", c.Setter, c.In)
		}
		if !retRecv {
			return core.Failf("%s succeeded but did not return the receiver", c.Setter)
		}
		return nil
	}
	if !failed {
		return core.Failf("%s accepted an invalid input (in=%s len=%d)", c.Setter, c.In, len(c.In))
	}
	if !retNil {
		return core.Failf("%s returned a non-nil value together with an error", c.Setter)
	}
	if obsChanged {
		return core.Failf("%s reported an error but modified the receiver (prior kind %d, in=%s)", c.Setter, c.Prior, c.In)
	}
	if changed {
		w.Distinct("representation-only-rewrite", []byte(c.Setter))
	}
	return nil
})

func init() { register("C14", "model_checking", runC14) }

func runC14(ctx *core.Ctx) {
	ctx.Rule("the seven fallible setters x every input of the C04/C08/C10/C13 alphabets' invalid parts (all wrong lengths 0..130, boundary balls around l, off-curve encodings from the small-y range and one-byte balls, invalid quadruples incl. every Z=0 form and single-coordinate deviations) plus valid inputs x prior receiver in {zero value, canonical value, non-trivial representation}. Oracle: on error nil+error, receiver raw memory and observable value unchanged, input unchanged to cap; on success returned pointer == receiver. states = (setter, prior, outcome) cells; transitions = setter calls. distinct_nontrivial = distinct (setter, outcome) classes")
	ctx.Assume("math/big decides validity")
	var cases []setterCase
	add3 := func(c setterCase) {
		for p := 0; p < 3; p++ {
			c.Prior = p
			cases = append(cases, c)
		}
	}
	le := func(v *big.Int) []byte { b := ref.LE32(v); return b[:] }
	// lengths for all byte setters
	for _, st := range []string{"Point.SetBytes", "Scalar.SetCanonicalBytes", "Scalar.SetUniformBytes", "Scalar.SetBytesWithClamping", "Element.SetBytes", "Element.SetWideBytes"} {
		for _, b := range lengthCases(0) {
			add3(setterCase{Setter: st, In: Hex(b)})
		}
		// valid-prefix at wrong lengths
		e := ref.Encode(ref.Base())
		for _, n := range []int{31, 33, 63, 65, 96} {
			v := make([]byte, n)
			copy(v, e[:])
			add3(setterCase{Setter: st, In: Hex(v)})
		}
	}
	// Point.SetBytes: off-curve and valid strings
	ny := tierN(ctx, 2048, 16384)
	for y := 0; y < ny; y++ {
		var b [32]byte
		b[0], b[1] = byte(y), byte(y>>8)
		b[31] = byte(y&1) << 7
		add3(setterCase{Setter: "Point.SetBytes", In: Hex(b[:])})
	}
	e := ref.Encode(ref.Mul(alpha.GenericScalar, ref.Base()))
	for _, b := range oneByteBall(e[:]) {
		add3(setterCase{Setter: "Point.SetBytes", In: Hex(b)})
	}
	// Scalar.SetCanonicalBytes: balls around l-1, l
	for _, base := range [][]byte{le(new(big.Int).Sub(ref.L, big.NewInt(1))), le(ref.L), bytes.Repeat([]byte{0xff}, 32)} {
		for _, b := range oneByteBall(base) {
			add3(setterCase{Setter: "Scalar.SetCanonicalBytes", In: Hex(b)})
		}
	}
	// SetExtendedCoordinates: invalid quadruples
	B := ref.Base()
	fv := []*big.Int{big.NewInt(0), big.NewInt(1), big.NewInt(2), new(big.Int).Sub(ref.P, big.NewInt(1)), ref.SqrtM1, B.X, B.Y}
	n := len(fv)
	for i := 0; i < n*n*n*n; i++ {
		q := [4]elemIn{{alpha.CanonLimbs(fv[i%n])}, {alpha.CanonLimbs(fv[(i/n)%n])}, {alpha.CanonLimbs(fv[(i/n/n)%n])}, {alpha.CanonLimbs(fv[i/n/n/n])}}
		add3(setterCase{Setter: "Point.SetExtendedCoordinates", Quad: q})
	}
	var zforms []elemIn
	for _, l := range alpha.BorrowForms(big.NewInt(0), alpha.DefaultBox) {
		zforms = append(zforms, elemIn{l})
	}
	for _, np := range alpha.Points(true) {
		for li, lam := range alpha.Lambdas() {
			co := alpha.PointCoords(np.P, lam)
			var base [4]elemIn
			for i := range base {
				r := alpha.ElemRecipes(co[i])
				base[i] = inOf(&r[(li+i)%7])
			}
			add3(setterCase{Setter: "Point.SetExtendedCoordinates", Quad: base})
			for pos := 0; pos < 4; pos++ {
				for _, a := range []*big.Int{ref.FNeg(co[pos]), ref.FAdd(co[pos], big.NewInt(1))} {
					q := base
					q[pos] = elemIn{alpha.CanonLimbs(a)}
					add3(setterCase{Setter: "Point.SetExtendedCoordinates", Quad: q})
				}
			}
			for _, z := range zforms {
				q := base
				q[2] = z
				add3(setterCase{Setter: "Point.SetExtendedCoordinates", Quad: q})
				add3(setterCase{Setter: "Point.SetExtendedCoordinates", Quad: [4]elemIn{z, z, z, z}})
			}
		}
	}
	subC14.RunList(ctx, cases)
	ctx.AddStates(int64(ctx.DistinctCount("nontrivial:outcome") * 3))
	ctx.AddTransitions(int64(len(cases)))
	ctx.AddTraces(int64(len(cases)))
	if n := ctx.DistinctCount("representation-only-rewrite"); n > 0 {
		ctx.Note("some failing setters rewrote the receiver's representation without changing its value (not a violation)")
	}
	if ctx.DistinctCount("nontrivial:outcome") < 13 {
		ctx.Vacuous("C14: not every setter reached both its success and error path (%d classes)", ctx.DistinctCount("nontrivial:outcome"))
	}
}
