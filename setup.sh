#!/bin/sh
# Offline setup: warm the Go build cache by building the harness once.
cd "$(dirname "$0")" && exec ./check setup
