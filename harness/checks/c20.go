package checks

import (
	"encoding/json"
	"fmt"
	"os"
	"os/exec"
	"path/filepath"
	"sort"
	"strings"
	"time"

	"filippo.io/edwards25519/field"
	"verif/harness/alpha"
	"verif/harness/core"
	"verif/harness/ref"
)

// C20 - optimised and portable field implementations agree.

type c20Case struct {
	Op string `json:"op"`
	A  elemIn `json:"a"`
	B  elemIn `json:"b"`
}

var c20LimbDiffs int64

var subC20 = core.NewSub("C20/dispatched-vs-portable", func(w *core.Worker, c c20Case) *core.Fail {
	a, b := c.A.elem(), c.B.elem()
	var d, g field.Element
	var want = ref.FMul(c.A.value(), c.B.value())
	if c.Op == "Square" {
		shimFeSquare(&d, &a)
		shimFeSquareGeneric(&g, &a)
		want = ref.FSq(c.A.value())
	} else {
		shimFeMul(&d, &a, &b)
		shimFeMulGeneric(&g, &a, &b)
	}
	if f := elemIs(&d, want, "dispatched "+c.Op); f != nil {
		return core.Failf("%s %v x %v: %s", c.Op, c.A.L, c.B.L, f.Msg)
	}
	if f := elemIs(&g, want, "portable "+c.Op); f != nil {
		return core.Failf("%s %v x %v: %s", c.Op, c.A.L, c.B.L, f.Msg)
	}
	limbModel()
	bound := lmOps["Multiply"].Uint64()
	for i, l := range alpha.LimbsOf(&d) {
		if l > bound[i] {
			return core.Failf("dispatched %s output limb %d = %d exceeds the representation bound %d (inputs %v, %v)", c.Op, i, l, bound[i], c.A.L, c.B.L)
		}
	}
	for i, l := range alpha.LimbsOf(&g) {
		if l > bound[i] {
			return core.Failf("portable %s output limb %d = %d exceeds the representation bound %d (inputs %v, %v)", c.Op, i, l, bound[i], c.A.L, c.B.L)
		}
	}
	if alpha.LimbsOf(&d) != alpha.LimbsOf(&g) {
		w.Distinct("limb-differences", []byte(fmt.Sprint(c)))
	}
	w.Distinct("nontrivial:products", d.Bytes())
	return nil
})

// transcript comparison across the two builds
type c20Transcript struct {
	Prop  string `json:"prop"`
	Class string `json:"class"`
}

var c20Deadline time.Time

func c20RunChild(bin, prop, tags string, digestFile string) (exit int, out string) {
	args := []string{"-prop", prop, "-tier", "quick", "-digest", digestFile, "-report-as", "C20", "-build-tags", tags, "-no-evidence",
		"-verif", VerifDir, "-out", core.OutDir}
	if !c20Deadline.IsZero() {
		rem := time.Until(c20Deadline)
		if rem < time.Second {
			rem = time.Second
		}
		args = append(args, "-deadline", rem.String())
	}
	cmd := exec.Command(bin, args...)
	cmd.Env = append(os.Environ(), "VERIF_SHARD=")
	if c20Smoke {
		cmd.Env = append(cmd.Env, "VERIF_SMOKE=1")
	}
	b, err := cmd.CombinedOutput()
	if ee, ok := err.(*exec.ExitError); ok {
		return ee.ExitCode(), string(b)
	} else if err != nil {
		core.InternalError("C20: cannot run %s: %v", bin, err)
	}
	return 0, string(b)
}

func c20CompareProp(prop string) (mismatch []string, childViolation bool, msg string) {
	self, err := os.Executable()
	if err != nil {
		core.InternalError("%v", err)
	}
	pg := os.Getenv("VERIF_PUREGO_BIN")
	if pg == "" {
		core.InternalError("C20: VERIF_PUREGO_BIN not set (run through ./check)")
	}
	dir, err := os.MkdirTemp(os.Getenv("VERIF_WORK"), "c20")
	if err != nil {
		core.InternalError("%v", err)
	}
	defer os.RemoveAll(dir)
	var digests [2]core.Digest
	for i, b := range []struct{ bin, tags string }{{self, ""}, {pg, "purego"}} {
		df := filepath.Join(dir, fmt.Sprintf("d%d.json", i))
		code, out := c20RunChild(b.bin, prop, b.tags, df)
		switch code {
		case 0:
		case 1:
			// the child printed VIOLATION lines (property C20) and wrote replay files
			fmt.Print(out)
			return nil, true, fmt.Sprintf("property %s is violated in the build with tags %q", prop, b.tags)
		default:
			core.InternalError("C20: run of %s (tags %q) exited %d:\n%s", prop, b.tags, code, out)
		}
		raw, err := os.ReadFile(df)
		if err != nil {
			core.InternalError("C20: %v", err)
		}
		if err := json.Unmarshal(raw, &digests[i]); err != nil {
			core.InternalError("C20: %v", err)
		}
	}
	classes := map[string]bool{}
	for c := range digests[0].Classes {
		classes[c] = true
	}
	for c := range digests[1].Classes {
		classes[c] = true
	}
	for c := range classes {
		if digests[0].Classes[c] != digests[1].Classes[c] {
			mismatch = append(mismatch, c)
		}
	}
	sort.Strings(mismatch)
	c20Observations += int64(digests[0].Evaluations)
	for _, v := range digests[0].Classes {
		c20DistinctObs += int64(v[0])
	}
	return mismatch, false, ""
}

var c20Observations, c20DistinctObs int64

// c20Smoke: the quick tier compares the two builds on the small enumeration
// sizes (the comparison is of transcripts; depth comes from the per-property checks).
var c20Smoke = true

func init() {
	core.RegisterReplayer("C20/transcript", func(raw json.RawMessage) *core.Fail {
		var c c20Transcript
		if err := json.Unmarshal(raw, &c); err != nil {
			core.InternalError("%v", err)
		}
		mm, cv, msg := c20CompareProp(c.Prop)
		if cv {
			return core.Failf("%s", msg)
		}
		for _, m := range mm {
			if m == c.Class {
				return core.Failf("observations of class %q of the %s program differ between the default and the purego build", c.Class, c.Prop)
			}
		}
		return nil
	})
	register("C20", "exploration", runC20)
}

func runC20(ctx *core.Ctx) {
	c20Deadline = ctx.Deadline
	ctx.Rule("(1) same build, two routines: dispatched feMul/feSquare vs the portable feMulGeneric/feSquareGeneric on all pairs of the corner lattice L(K4) of the closed box (1024^2 pairs; quick L(K3)^2) and L(K7) for squaring: both equal math/big, both within the Multiply representation bound (limb equality is reported, not required); (2) two builds: the quick enumerations of C01,C02,C04-C10,C13,C16,C17 are run by a binary built from the same tree with -tags purego and by the default binary; each must be violation-free against math/big and the order-independent digests of all value-level observations must agree; (3) dispatch is read from the binaries (go tool nm/objdump): the default build must contain two assembly routines of package field with the multiply/square MULQ counts, the purego build no assembly (otherwise the run is marked not exhaustive). distinct_nontrivial = distinct products in (1)")
	ctx.Assume("math/big is correct", "the purego binary and the default binary are built from the same working tree by ./check",
		"limb vectors outside the closed box are outside the representation invariant and are not compared")
	// (3) dispatch facts gathered by ./check
	if f := os.Getenv("VERIF_DISPATCH_FACTS"); f != "" {
		b, err := os.ReadFile(f)
		if err != nil {
			core.InternalError("C20: %v", err)
		}
		var facts map[string]any
		json.Unmarshal(b, &facts)
		ctx.Extra("dispatch", facts)
		if ok, _ := facts["ok"].(bool); !ok {
			// not an error: a tree may legitimately organise (or drop) its
			// assembly differently; the comparison of the two builds below
			// still decides agreement of whatever each build dispatches to
			ctx.NotExhaustive(fmt.Sprintf("the expected dispatch (assembly multiply/square in the default build, none under purego) could not be read from the binaries: %v", facts))
		}
	} else {
		core.InternalError("C20: VERIF_DISPATCH_FACTS not set (run through ./check)")
	}
	if shimAvailable {
		k := sz(ctx, 3, 3, 4)
		n := latticeSize(k)
		subC20.Run(ctx, n*n, func(i int) c20Case { return c20Case{"Multiply", elemIn{latticeAt(k, i/n)}, elemIn{latticeAt(k, i%n)}} })
		n7 := latticeSize(7)
		subC20.Run(ctx, n7, func(i int) c20Case { return c20Case{"Square", elemIn{latticeAt(7, i)}, elemIn{}} })
		forms := fieldForms(false)
		nf := len(forms)
		subC20.Run(ctx, nf*nf, func(i int) c20Case { return c20Case{"Multiply", inOf(&forms[i/nf].E), inOf(&forms[i%nf].E)} })
		ctx.Extra("inputs_with_different_limbs_but_equal_value", ctx.DistinctCount("limb-differences"))
	} else {
		ctx.Note("in-package shim unavailable: same-build comparison skipped; the two-build comparison decides")
	}
	// (2) two builds
	c20Smoke = ctx.Quick()
	props := []string{"C07", "C08", "C09", "C10", "C16", "C02", "C04", "C05", "C06", "C13", "C17", "C01"}
	var compared []string
	for _, p := range props {
		if ctx.Expired() {
			ctx.NotExhaustive("deadline before all properties were compared across builds")
			break
		}
		mm, cv, msg := c20CompareProp(p)
		if cv {
			// child already reported; make the parent fail with a replayable case too
			ctx.ReportViolation("C20/transcript", len(compared), c20Transcript{p, "(violation against the reference model)"}, msg)
			break
		}
		for _, cl := range mm {
			ctx.ReportViolation("C20/transcript", len(compared), c20Transcript{p, cl}, fmt.Sprintf("observations of class %q of the %s program differ between the default and the purego build", cl, p))
		}
		compared = append(compared, p)
	}
	ctx.Extra("two_build_comparison", map[string]any{"properties_compared": compared, "observations_per_build": c20Observations, "distinct_value_observations": c20DistinctObs})
	ctx.AddEvals(c20Observations)
	_ = strings.Join
}
